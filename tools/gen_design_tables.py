#!/usr/bin/env python3
"""tools/gen_design_tables.py - regenerate the generated tables of DESIGN.md (between <!-- BEGIN x --> / <!-- END x -->):
findings (from known_findings.json) and seeded (from seeded/*/meta.json)."""
import glob
import json
import os
import re

ROOT = os.path.dirname(os.path.dirname(os.path.abspath(__file__)))


def findings_table():
    d = json.load(open(os.path.join(ROOT, 'known_findings.json')))
    rows = ['| property | disposition | what failed |', '|---|---|---|']
    for f in d['findings']:
        if f.get('status') == 'fixed':
            what = f['line'].split(f['commit'], 1)[1].strip()
            rows.append('| %s | fixed `%s` | %s |' % (f['property'], f['commit'][:7], what.replace('|', '/')))
        else:
            rows.append('| %s | **open** (known finding `%s`) | %s |' % (f['property'], f['id'], f['what'].replace('|', '/')))
    return '\n'.join(rows)


def seeded_table():
    rows = ['| seeded change | breaks | what it does | needs | first run | caught by (quick tier) |', '|---|---|---|---|---|---|']
    for p in sorted(glob.glob(os.path.join(ROOT, 'seeded', '*', 'meta.json'))):
        m = json.load(open(p))
        sid = os.path.basename(os.path.dirname(p))
        rows.append('| `seeded/%s` | %s | %s | %s | %s | %s |' % (
            sid, m.get('property', ''), m.get('what', '').replace('|', '/'), m.get('needs', '').replace('|', '/'),
            m.get('first_run', '').replace('|', '/'), ', '.join(m.get('caught_by', []))))
    return '\n'.join(rows)


def added_table():
    import ast
    rows = ['| property | added during the build (beyond the plan in this section) |', '|---|---|']
    for p in sorted(glob.glob(os.path.join(ROOT, 'vf', 'props', 'C??.py'))):
        tree = ast.parse(open(p).read())
        for node in tree.body:
            if isinstance(node, ast.Assign) and getattr(node.targets[0], 'id', '') == 'LEVEL_ADDED':
                rows.append('| %s | %s |' % (os.path.basename(p)[:3], ast.literal_eval(node.value).replace('|', '/')))
    return '\n'.join(rows)


def main():
    p = os.path.join(ROOT, 'DESIGN.md')
    s = open(p).read()
    for name, gen in (('findings', findings_table), ('seeded', seeded_table), ('added', added_table)):
        pat = re.compile(r'(<!-- BEGIN %s -->\n).*?(\n<!-- END %s -->)' % (name, name), re.S)
        if not pat.search(s):
            raise SystemExit('marker %s missing in DESIGN.md' % name)
        s = pat.sub(lambda m: m.group(1) + gen() + m.group(2), s)
    open(p, 'w').write(s)


if __name__ == '__main__':
    main()
