#!/usr/bin/env python3
"""tools/kf_fixed.py <property> <id> <commit> <what failed>  - append a 'fixed' entry to known_findings.json"""
import json, sys
prop, fid, commit, what = sys.argv[1:5]
p = __file__.rsplit('/', 2)[0] + '/known_findings.json'
d = json.load(open(p))
d['findings'].append({'property': prop, 'id': fid, 'status': 'fixed', 'commit': commit,
                      'line': 'fixed: property=%s %s %s' % (prop, commit, what)})
json.dump(d, open(p, 'w'), indent=1)
