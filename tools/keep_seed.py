#!/usr/bin/env python3
"""tools/keep_seed.py <src prop dir id> <k> <json meta>  - store a confirmed seeded change under /verif/seeded/<id>-<k>/"""
import json, os, shutil, sys
src, k, meta = sys.argv[1], sys.argv[2], json.loads(sys.argv[3])
root = os.path.dirname(os.path.dirname(os.path.abspath(__file__)))
d = os.path.join(root, 'seeded', '%s-%s' % (src, k))
os.makedirs(d, exist_ok=True)
shutil.copy('/tmp/mut/%s-out/patch%s.diff' % (src, k), os.path.join(d, 'patch.diff'))
shutil.copy('/tmp/mut/%s-out/demo%s.py' % (src, k), os.path.join(d, 'demo.py'))
meta.setdefault('property', src)
meta['ran'] = ('git -C /repo apply patch.diff; baseline test suite (221 passed); /venv/bin/python demo.py /repo -> exit 1 '
               '(exit 0 on the unchanged tree); ./check <property> --tier quick; git -C /repo checkout -- .   (tools/try_seed.py)')
meta['origin'] = 'independent sub-agent given only the property text and a scratch worktree'
json.dump(meta, open(os.path.join(d, 'meta.json'), 'w'), indent=1)
print(d)
