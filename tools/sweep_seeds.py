#!/usr/bin/env python3
"""tools/sweep_seeds.py [--jobs N] [ids...] - regression sweep over /verif/seeded: every kept change is applied to a scratch
worktree of /repo (under /tmp, removed afterwards), the owning property's quick check is run against it
(VF_REPO=<worktree>, evidence redirected to a scratch directory) and must exit 1 with a VIOLATION line.
Prints one line per change and writes seeded/SWEEP.json.  Nothing is changed in /repo."""
import glob
import json
import os
import shutil
import subprocess
import sys
import tempfile

ROOT = os.path.dirname(os.path.dirname(os.path.abspath(__file__)))


def main():
    args = sys.argv[1:]
    jobs = '16'
    if '--jobs' in args:
        i = args.index('--jobs')
        jobs = args[i + 1]
        del args[i:i + 2]
    ids = args or sorted(os.path.basename(os.path.dirname(p)) for p in glob.glob(os.path.join(ROOT, 'seeded', '*', 'meta.json')))
    scratch = tempfile.mkdtemp(prefix='vf-sweep-')
    wt = os.path.join(scratch, 'repo')
    evid = os.path.join(scratch, 'evidence')
    subprocess.check_call(['git', '-C', '/repo', 'worktree', 'add', '--detach', '-q', wt, 'HEAD'])
    head = subprocess.check_output(['git', '-C', wt, 'rev-parse', '--short', 'HEAD'], text=True).strip()
    out = {}
    try:
        for sid in ids:
            d = os.path.join(ROOT, 'seeded', sid)
            meta = json.load(open(os.path.join(d, 'meta.json')))
            prop = meta['property']
            patch = os.path.join(d, 'patch.diff')
            subprocess.call(['git', '-C', wt, 'checkout', '-q', '--', '.'])
            if subprocess.call(['git', '-C', wt, 'apply', '--check', patch], stderr=subprocess.DEVNULL) != 0:
                out[sid] = {'property': prop, 'result': 'patch-does-not-apply'}
                print('%-8s %s  patch does not apply to the current /repo HEAD' % (sid, prop), flush=True)
                continue
            subprocess.check_call(['git', '-C', wt, 'apply', patch])
            demo = subprocess.call(['/venv/bin/python', os.path.join(d, 'demo.py'), wt], stdout=subprocess.DEVNULL,
                                   stderr=subprocess.DEVNULL)
            env = dict(os.environ, VF_REPO=wt, VF_EVIDENCE_DIR=evid, VF_JOBS=jobs)
            p = subprocess.run([os.path.join(ROOT, 'check'), prop, '--tier', 'quick'], env=env, stdout=subprocess.PIPE,
                               stderr=subprocess.STDOUT, text=True)
            nviol = len([ln for ln in p.stdout.splitlines() if ln.startswith('VIOLATION property=%s ' % prop)])
            res = 'caught' if (p.returncode == 1 and nviol) else 'MISSED (rc=%d)' % p.returncode
            out[sid] = {'property': prop, 'result': res, 'violations': nviol, 'demo_rc_with_change': demo}
            print('%-8s %s  %s  violations=%d demo_rc=%d' % (sid, prop, res, nviol, demo), flush=True)
    finally:
        subprocess.call(['git', '-C', '/repo', 'worktree', 'remove', '--force', wt])
        shutil.rmtree(scratch, ignore_errors=True)
    sw = os.path.join(ROOT, 'seeded', 'SWEEP.json')
    if not args:
        json.dump({'repo_head': head, 'results': out}, open(sw, 'w'), indent=1)
    elif os.path.exists(sw):
        # a partial sweep updates the entries it ran (each entry then records the /repo head it was run against)
        d = json.load(open(sw))
        for k, v in out.items():
            v['repo_head'] = head
            d['results'][k] = v
        json.dump(d, open(sw, 'w'), indent=1)
    bad = [k for k, v in out.items() if v['result'] not in ('caught', 'patch-does-not-apply')]
    print('SWEEP %d changes, %d caught, %d not applicable any more, missed: %s' % (
        len(out), len([1 for v in out.values() if v['result'] == 'caught']),
        len([1 for v in out.values() if v['result'] == 'patch-does-not-apply']), bad or 'none'))
    sys.exit(1 if bad else 0)


if __name__ == '__main__':
    main()
