#!/usr/bin/env python3
"""Regenerates /verif/MANIFEST.json from the metadata in vf/props/Cnn.py.
A property whose module is missing (or has CLAIMED = False) goes to not_applicable
with its stated reason."""
import ast
import json
import os
import sys

ROOT = os.path.dirname(os.path.dirname(os.path.abspath(__file__)))
PROPS = [json.loads(l)['id'] for l in open(os.path.join(ROOT, 'properties.jsonl'))]


def meta(pid):
    fn = os.path.join(ROOT, 'vf', 'props', pid + '.py')
    if not os.path.exists(fn):
        return None
    tree = ast.parse(open(fn).read())
    out = {}
    for node in tree.body:
        if isinstance(node, ast.Assign) and len(node.targets) == 1 and isinstance(node.targets[0], ast.Name):
            name = node.targets[0].id
            if name in ('CLAIMED', 'LEVEL_TEXT', 'LEVEL_NOTE', 'LEVEL_ADDED', 'TECHNIQUE', 'DESIGN_REF', 'NA_REASON'):
                try:
                    out[name] = ast.literal_eval(node.value)
                except Exception:
                    pass
    return out


def main():
    checks, na = [], []
    for pid in PROPS:
        m = meta(pid)
        if not m or not m.get('CLAIMED', True):
            na.append({'property_id': pid, 'reason': (m or {}).get('NA_REASON', 'check not built yet in this round')})
            continue
        checks.append({
            'property_id': pid,
            'quick_cmd': './check %s --tier quick' % pid,
            'thorough_cmd': './check %s --tier thorough' % pid,
            'evidence_file': 'evidence/%s.json' % pid,
            'replay_cmd_template': './check %s --replay {path}' % pid,
            'engine': 'crosshair-z3',
            'level_claimed': {'category': 'other', 'text': (m.get('LEVEL_TEXT', '') + ' ' + m.get('LEVEL_ADDED', '')).strip(),
                              'design_ref': m.get('DESIGN_REF', 'DESIGN.md section 6, ' + pid)},
            'level_note': m.get('LEVEL_NOTE', ''),
            'technique': m.get('TECHNIQUE', 'bounded symbolic execution of the real Python source (CrossHair + z3), '
                                            'one obligation per concrete shape with symbolic values; counterexamples replayed'),
        })
    man = {
        'version': 1,
        'setup_cmd': 'sh ./setup.sh',
        'hooks': {'guard': 'YABGP_VERIF', 'enable': 'none needed: the checks import /repo\'s working tree through '
                  'vf/loader.py (import hook with loop fuel and environment stubs); no in-repo hook exists',
                  'baseline_off_cmd': 'cd /repo && /venv/bin/python -m pytest -ra -q -p no:cacheprovider --timeout=900 '
                  '--continue-on-collection-errors',
                  'source_commits': [], 'add_only': True},
        'engines': [{'name': 'crosshair-z3', 'path': 'vf/engine',
                     'serves_properties': [c['property_id'] for c in checks],
                     'kind_free_text': 'symbolic execution of the real Python source with CrossHair 0.0.110 and z3 5.1.0, '
                                       'engine extension vf/engine/ch_ext.py justified by z3 lemmas, one OS process per obligation'}],
        'checks': checks,
        'not_applicable': na,
        'notes': 'See DESIGN.md. Exit codes: 0 held on everything explored (KNOWN-FINDING lines allowed), 1 VIOLATION, '
                 '3 harness error (non-reproducing counterexample, vacuous obligation, failed lemma).',
    }
    json.dump(man, open(os.path.join(ROOT, 'MANIFEST.json'), 'w'), indent=1)
    print('checks:', [c['property_id'] for c in checks], 'na:', [n['property_id'] for n in na])


if __name__ == '__main__':
    main()
