#!/usr/bin/env python3
"""tools/try_seed.py <patch.diff> <demo.py> <Cnn> [more Cnn ...] [--tier quick]
Applies a seeded change to /repo, confirms it (tests pass, demo fails with it / passes without), runs the named
checks against it, and undoes it.  Prints a one-line verdict per check."""
import os
import subprocess
import sys

REPO = '/repo'
VERIF = os.path.dirname(os.path.dirname(os.path.abspath(__file__)))


def sh(cmd, **kw):
    return subprocess.run(cmd, shell=True, stdout=subprocess.PIPE, stderr=subprocess.STDOUT, text=True, **kw)


def main():
    args = [a for a in sys.argv[1:] if not a.startswith('--')]
    tier = 'quick'
    if '--tier' in sys.argv:
        tier = sys.argv[sys.argv.index('--tier') + 1]
        args = [a for a in args if a != tier]
    patch, demo, props = args[0], args[1], args[2:]
    assert sh('git -C %s status --porcelain' % REPO).stdout.strip() == '', '/repo not clean'
    r = sh('/venv/bin/python %s %s' % (demo, REPO))
    print('demo on unchanged tree: rc=%d' % r.returncode)
    clean_rc = r.returncode
    r = sh('git -C %s apply %s' % (REPO, patch))
    if r.returncode != 0:
        print('PATCH DOES NOT APPLY', r.stdout[-300:])
        return 2
    try:
        t = sh('cd %s && /venv/bin/python -m pytest -q -p no:cacheprovider yabgp/tests 2>&1 | tail -1' % REPO)
        print('tests with change:', t.stdout.strip())
        r = sh('/venv/bin/python %s %s' % (demo, REPO))
        print('demo with change: rc=%d %s' % (r.returncode, r.stdout.strip().splitlines()[-1][:200] if r.stdout.strip() else ''))
        print('CONFIRMED' if ('passed' in t.stdout and 'failed' not in t.stdout and r.returncode != 0 and clean_rc == 0) else 'NOT CONFIRMED')
        for p in props:
            c = sh('cd %s && ./check %s --tier %s' % (VERIF, p, tier))
            viol = [l for l in c.stdout.splitlines() if l.startswith('VIOLATION')]
            obl = [l.strip() for l in c.stdout.splitlines() if l.strip().startswith('obligation=')]
            summ = [l for l in c.stdout.splitlines() if l.startswith('SUMMARY')]
            print('%s rc=%d violations=%d %s' % (p, c.returncode, len(viol), summ[-1][:160] if summ else c.stdout[-300:]))
            for o in obl[:3]:
                print('    ', o[:220])
            herr = [l for l in c.stdout.splitlines() if l.startswith('HARNESS-ERROR')]
            for h in herr[:2]:
                print('    ', h[:300])
    finally:
        sh('git -C %s checkout -- .' % REPO)
        sh('git -C %s clean -fdq' % REPO)
    return 0


if __name__ == '__main__':
    sys.exit(main())
