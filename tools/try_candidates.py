#!/usr/bin/env python3
"""tools/try_candidates.py <ID> [<ID> ...] - evaluate seeded-change candidates /tmp/mut/<ID>-out/{patchK.diff,demoK.py}
(K = 1, 2) against the owning property's quick check, on a scratch worktree of /repo (VF_REPO), never on /repo itself.
<ID> is like C07b: the owning property is the first three characters.  Prints one line per candidate."""
import os
import shutil
import subprocess
import sys
import tempfile

ROOT = os.path.dirname(os.path.dirname(os.path.abspath(__file__)))


def main():
    ids = sys.argv[1:]
    scratch = tempfile.mkdtemp(prefix='vf-cand-')
    wt = os.path.join(scratch, 'repo')
    evid = os.path.join(scratch, 'evidence')
    subprocess.check_call(['git', '-C', '/repo', 'worktree', 'add', '--detach', '-q', wt, 'HEAD'])
    try:
        for cid in ids:
            prop = cid[:3]
            for k in (1, 2):
                patch = '/tmp/mut/%s-out/patch%d.diff' % (cid, k)
                demo = '/tmp/mut/%s-out/demo%d.py' % (cid, k)
                tag = '%s/%d' % (cid, k)
                if not (os.path.exists(patch) and os.path.exists(demo)):
                    print('%-8s missing files' % tag, flush=True)
                    continue
                subprocess.call(['git', '-C', wt, 'checkout', '-q', '--', '.'])
                d0 = subprocess.call(['/venv/bin/python', demo, wt], stdout=subprocess.DEVNULL, stderr=subprocess.DEVNULL)
                if subprocess.call(['git', '-C', wt, 'apply', patch], stderr=subprocess.DEVNULL) != 0:
                    print('%-8s patch does not apply' % tag, flush=True)
                    continue
                t = subprocess.run(['/venv/bin/python', '-m', 'pytest', '-q', '-p', 'no:cacheprovider', 'yabgp/tests'], cwd=wt,
                                   stdout=subprocess.PIPE, stderr=subprocess.STDOUT, text=True)
                tests = t.stdout.strip().splitlines()[-1] if t.stdout.strip() else '?'
                d1 = subprocess.call(['/venv/bin/python', demo, wt], stdout=subprocess.DEVNULL, stderr=subprocess.DEVNULL)
                confirmed = d0 == 0 and d1 == 1 and '221 passed' in tests
                env = dict(os.environ, VF_REPO=wt, VF_EVIDENCE_DIR=evid)
                p = subprocess.run([os.path.join(ROOT, 'check'), prop, '--tier', 'quick'], env=env, stdout=subprocess.PIPE,
                                   stderr=subprocess.STDOUT, text=True)
                lines = p.stdout.splitlines()
                nviol = len([ln for ln in lines if ln.startswith('VIOLATION property=')])
                first = next((ln.strip()[:150] for ln in lines if ln.strip().startswith('obligation=')), '')
                print('%-8s %s  confirmed=%s (demo clean=%d changed=%d, %s)  check rc=%d violations=%d  %s' % (
                    tag, prop, confirmed, d0, d1, tests[:40], p.returncode, nviol, first), flush=True)
    finally:
        subprocess.call(['git', '-C', '/repo', 'worktree', 'remove', '--force', wt])
        shutil.rmtree(scratch, ignore_errors=True)


if __name__ == '__main__':
    main()
