"""Independent structural walker (C08).  Checks only lengths, flag bits and containment; shares no
code with yabgp's decoders.  Every function returns True iff the structure is well formed.
Works on concrete or symbolic bytes (lengths are read from the data)."""
from vf.ref.iana import ATTR_CATEGORY

KNOWN_TYPES = (1, 2, 3, 4, 5, 128)


def u16(d, i):
    return d[i] * 256 + d[i + 1]


def check_header(raw):
    n = len(raw)
    if n < 19 or n > 65535:
        return False      # (the 4096-octet limit of RFC 4271 is not part of C08's statement)
    for i in range(16):
        if raw[i] != 255:
            return False
    if u16(raw, 16) != n:
        return False
    return raw[18] in KNOWN_TYPES


def check_message(raw, asn4=False, addpath=False):
    if not check_header(raw):
        return False
    t = raw[18]
    body = raw[19:]
    if t == 1:
        return check_open(body)
    if t == 2:
        return check_update(body, asn4, addpath)
    if t == 3:
        return len(body) >= 2
    if t == 4:
        return len(body) == 0
    return len(body) == 4


def check_open(body):
    if len(body) < 10:
        return False
    optlen = body[9]
    if 10 + optlen != len(body):
        return False
    i = 10
    n = len(body)
    while i < n:
        if i + 2 > n:
            return False
        plen = body[i + 1]
        if i + 2 + plen > n:
            return False
        if body[i] == 2:
            j, end = i + 2, i + 2 + plen
            while j < end:
                if j + 2 > end:
                    return False
                clen = body[j + 1]
                if j + 2 + clen > end:
                    return False
                j += 2 + clen
            if j != end:
                return False
        i += 2 + plen
    return i == n


def check_prefixes(d, maxlen=32, addpath=False):
    i, n = 0, len(d)
    while i < n:
        if addpath:
            if i + 4 > n:
                return False
            i += 4
        if i >= n:
            return False
        plen = d[i]
        if plen > maxlen:
            return False
        k = (plen + 7) // 8
        if i + 1 + k > n:
            return False
        i += 1 + k
    return i == n


def check_update(body, asn4=False, addpath=False):
    n = len(body)
    if n < 4:
        return False
    wl = u16(body, 0)
    if 2 + wl + 2 > n:
        return False
    if not check_prefixes(body[2:2 + wl], 32, addpath):
        return False
    al = u16(body, 2 + wl)
    if 4 + wl + al > n:
        return False
    if not check_attributes(body[4 + wl:4 + wl + al], asn4):
        return False
    return check_prefixes(body[4 + wl + al:], 32, addpath)


def check_attributes(d, asn4=False):
    i, n = 0, len(d)
    seen = []
    while i < n:
        if i + 3 > n:
            return False
        flags, code = d[i], d[i + 1]
        if flags % 16 != 0:
            return False                      # the low four bits must be zero when sent
        ext = (flags // 16) % 2
        if ext:
            if i + 4 > n:
                return False
            ln = u16(d, i + 2)
            start = i + 4
        else:
            ln = d[i + 2]
            start = i + 3
        if start + ln > n:
            return False
        optional, transitive, partial = flags // 128, (flags // 64) % 2, (flags // 32) % 2
        cat = ATTR_CATEGORY.get(code)
        if cat is not None and (optional, transitive) != cat:
            return False
        if partial and not (optional and transitive):
            return False
        if code in seen:
            return False
        seen.append(code)
        if not check_attr_value(code, d[start:start + ln], asn4):
            return False
        i = start + ln
    return i == n


def check_attr_value(code, v, asn4):
    n = len(v)
    if code == 1:
        return n == 1
    if code in (2, 17):
        return check_as_path(v, asn4 or code == 17)
    if code in (3, 4, 5, 9):
        return n == 4
    if code == 6:
        return n == 0
    if code == 7:
        return n == (8 if asn4 else 6)
    if code == 18:
        return n == 8
    if code in (8, 10):
        return n % 4 == 0
    if code == 16:
        return n % 8 == 0 and n > 0
    if code == 32:
        return n % 12 == 0
    if code == 14:
        return check_mp_reach(v)
    if code == 15:
        return check_mp_unreach(v)
    if code == 22:
        # RFC 6514 section 5: flags(1) tunnel type(1) MPLS label(3) tunnel identifier; ingress replication (6): the
        # identifier is one IPv4 or IPv6 address, no tunnel information (0): empty
        if n < 5:
            return False
        if v[1] == 6:
            return n - 5 in (4, 16)
        if v[1] == 0:
            return n == 5
        return True
    if code == 23:
        return check_tunnel_encaps(v)
    return True


def check_as_path(v, as4):
    i, n = 0, len(v)
    w = 4 if as4 else 2
    while i < n:
        if i + 2 > n:
            return False
        if not (1 <= v[i] <= 4):
            return False
        cnt = v[i + 1]
        if i + 2 + cnt * w > n:
            return False
        i += 2 + cnt * w
    return i == n


def check_mp_reach(v):
    n = len(v)
    if n < 5:
        return False
    afi, safi, nhl = u16(v, 0), v[2], v[3]
    if 4 + nhl + 1 > n:
        return False
    if afi == 1 and safi in (1, 4) and nhl not in (0, 4):
        return False
    if afi == 2 and safi in (1,) and nhl not in (16, 32):
        return False
    if safi == 128 and nhl not in (12, 24):
        return False
    return check_mp_nlri(afi, safi, v[4 + nhl + 1:])


def check_mp_unreach(v):
    if len(v) < 3:
        return False
    return check_mp_nlri(u16(v, 0), v[2], v[3:], True)


def check_labeled(d, maxlen, fixed, withdraw=False):
    """<length, label stack + [RD] + prefix> (RFC 8277 / 4364): the length counts labels and RD too; the label stack
    ends at the bottom-of-stack bit (a withdrawal may carry the single value 0x800000 instead); what is left
    of the length is the prefix length, 0..maxlen, and the route occupies exactly ceil(length / 8) octets"""
    i, n = 0, len(d)
    rd = fixed - 24
    while i < n:
        plen = d[i]
        k = (plen + 7) // 8
        if plen < fixed or i + 1 + k > n:
            return False
        j, labels = i + 1, 0
        while True:
            if j + 3 > i + 1 + k:
                return False
            labels += 1
            last = d[j + 2] % 2 == 1 or (withdraw and labels == 1 and d[j:j + 3] == b'\x80\x00\x00')
            j += 3
            if last:
                break
            if labels >= 8:
                return False
        bits = plen - 24 * labels - rd
        if bits < 0 or bits > maxlen:
            return False
        i += 1 + k
    return i == n


def check_evpn(d):
    i, n = 0, len(d)
    while i < n:
        if i + 2 > n:
            return False
        rt, ln = d[i], d[i + 1]
        if i + 2 + ln > n:
            return False
        body = d[i + 2:i + 2 + ln]
        if rt == 1 and ln != 25:
            return False
        if rt == 2 and ln not in (33, 36, 37, 40, 49, 52):
            return False
        if rt == 3 and ln not in (13, 17, 29):     # 13 / 19: IP address length 0 (yabgp allows an absent address)
            return False
        if rt == 4 and ln not in (19, 23, 35):
            return False
        if rt == 2:
            if body[22] != 48:
                return False
            ipl = body[29]
            if ipl not in (0, 32, 128):
                return False
            if 30 + ipl // 8 + 3 > ln:
                return False
        i += 2 + ln
    return i == n


def check_flowspec(d, v6=False):
    i, n = 0, len(d)
    while i < n:
        ln = d[i]
        if ln >= 240:
            if i + 2 > n:
                return False
            ln = (d[i] % 16) * 256 + d[i + 1]
            start = i + 2
        else:
            start = i + 1
        if start + ln > n:
            return False
        if not check_flowspec_rule(d[start:start + ln], v6):
            return False
        i = start + ln
    return i == n


def check_flowspec_rule(r, v6):
    i, n = 0, len(r)
    last = 0
    while i < n:
        t = r[i]
        if t <= last:
            return False                 # components in strictly increasing type order
        last = t
        i += 1
        if t in (1, 2):
            if i >= n:
                return False
            plen = r[i]
            if v6:
                if i + 1 >= n:
                    return False
                off = r[i + 1]
                k = (plen - off + 7) // 8 if plen >= off else 0
                if plen > 128:
                    return False
                i += 2 + k
            else:
                if plen > 32:
                    return False
                i += 1 + (plen + 7) // 8
            if i > n:
                return False
        else:
            while True:
                if i >= n:
                    return False
                op = r[i]
                ln = 2 ** ((op // 16) % 4)
                if i + 1 + ln > n:
                    return False
                i += 1 + ln
                if op // 128:
                    break
    return i == n


def check_srte(d):
    i, n = 0, len(d)
    while i < n:
        ln = d[i]
        if ln not in (96, 192):
            return False
        k = ln // 8
        if i + 1 + k > n:
            return False
        i += 1 + k
    return i == n


def check_mp_nlri(afi, safi, d, withdraw=False):
    if (afi, safi) == (1, 1):
        return check_prefixes(d, 32)
    if (afi, safi) == (2, 1):
        return check_prefixes(d, 128)
    if safi == 4:
        return check_labeled(d, 32 if afi == 1 else 128, 24, withdraw)
    if safi == 128:
        return check_labeled(d, 32 if afi == 1 else 128, 88, withdraw)
    if (afi, safi) == (25, 70):
        return check_evpn(d)
    if safi == 133:
        return check_flowspec(d, afi == 2)
    if (afi, safi) == (1, 73):
        return check_srte(d)
    return True


def check_tunnel_encaps(v):
    """tunnel TLVs: type(2) length(2) value; value = sub-TLVs type(1) length(1, or 2 when type >= 128) value"""
    i, n = 0, len(v)
    while i < n:
        if i + 4 > n:
            return False
        ln = u16(v, i + 2)
        if i + 4 + ln > n:
            return False
        if not check_sub_tlvs(v[i + 4:i + 4 + ln], True):
            return False
        i += 4 + ln
    return i == n


def check_sub_tlvs(d, top):
    i, n = 0, len(d)
    while i < n:
        if i + 2 > n:
            return False
        t = d[i]
        if top and t >= 128:
            if i + 3 > n:
                return False
            ln = u16(d, i + 1)
            start = i + 3
        else:
            ln = d[i + 1]
            start = i + 2
        if start + ln > n:
            return False
        if top and t == 128:
            # segment list: reserved octet then nested sub-TLVs
            if ln < 1 or not check_sub_tlvs(d[start + 1:start + ln], False):
                return False
        i = start + ln
    return i == n


def count_prefixes(d, addpath=False):
    """number of <length, prefix> entries in a prefix field (assumes check_prefixes accepted it)"""
    i, n, k = 0, len(d), 0
    while i < n:
        if addpath:
            i += 4
        i += 1 + (d[i] + 7) // 8
        k += 1
    return k


def update_prefix_counts(raw, addpath=False):
    """(withdrawn count, nlri count) of a complete UPDATE message"""
    body = raw[19:]
    wl = u16(body, 0)
    al = u16(body, 2 + wl)
    return count_prefixes(body[2:2 + wl], addpath), count_prefixes(body[4 + wl + al:], addpath)


def count_mp_routes(v, reach):
    """number of routes in an MP_REACH_NLRI / MP_UNREACH_NLRI value for the length-prefixed families, else None"""
    if reach:
        afi, safi, nhl = u16(v, 0), v[2], v[3]
        d = v[4 + nhl + 1:]
    else:
        afi, safi = u16(v, 0), v[2]
        d = v[3:]
    i, n, k = 0, len(d), 0
    if (afi, safi) in ((1, 1), (2, 1)) or safi in (4, 128):
        while i < n:
            i += 1 + (d[i] + 7) // 8
            k += 1
        return k
    if (afi, safi) == (25, 70):
        while i + 2 <= n:
            i += 2 + d[i + 1]
            k += 1
        return k
    if safi == 133:
        while i < n:
            if d[i] >= 240:
                i += 2 + (d[i] % 16) * 256 + d[i + 1]
            else:
                i += 1 + d[i]
            k += 1
        return k
    return None


def update_mp_counts(raw):
    """{14: count or None, 15: count or None} for the MP attributes present in a complete UPDATE"""
    body = raw[19:]
    wl = u16(body, 0)
    al = u16(body, 2 + wl)
    d = body[4 + wl:4 + wl + al]
    out, i = {}, 0
    while i < len(d):
        flags, code = d[i], d[i + 1]
        if (flags // 16) % 2:
            ln, hdr = u16(d, i + 2), 4
        else:
            ln, hdr = d[i + 2], 3
        if code in (14, 15):
            out[code] = count_mp_routes(d[i + hdr:i + hdr + ln], code == 14)
        i += hdr + ln
    return out
