"""IANA registries used by the oracles (written from the registries, not from yabgp)."""

# https://www.iana.org/assignments/bgp-well-known-communities  (names upper-cased)
WELL_KNOWN_COMMUNITIES = {
    'GRACEFUL_SHUTDOWN': 0xFFFF0000, 'PLANNED_SHUT': 0xFFFF0000,
    'ACCEPT_OWN': 0xFFFF0001,
    'ROUTE_FILTER_TRANSLATED_V4': 0xFFFF0002,
    'ROUTE_FILTER_V4': 0xFFFF0003,
    'ROUTE_FILTER_TRANSLATED_V6': 0xFFFF0004,
    'ROUTE_FILTER_V6': 0xFFFF0005,
    'LLGR_STALE': 0xFFFF0006,
    'NO_LLGR': 0xFFFF0007,
    'ACCEPT_OWN_NEXTHOP': 0xFFFF0008,
    'STANDBY_PE': 0xFFFF0009,
    'BLACKHOLE': 0xFFFF029A,
    'NO_EXPORT': 0xFFFFFF01,
    'NO_ADVERTISE': 0xFFFFFF02,
    'NO_EXPORT_SUBCONFED': 0xFFFFFF03,
    'NOPEER': 0xFFFFFF04,
}

# path attribute type -> (optional, transitive) per RFC 4271 / 4360 / 4456 / 4760 / 8092 ...
ATTR_CATEGORY = {
    1: (0, 1), 2: (0, 1), 3: (0, 1), 4: (1, 0), 5: (0, 1), 6: (0, 1), 7: (1, 1), 8: (1, 1),
    9: (1, 0), 10: (1, 0), 14: (1, 0), 15: (1, 0), 16: (1, 1), 17: (1, 1), 18: (1, 1),
    22: (1, 1), 23: (1, 1), 29: (1, 0), 32: (1, 1), 40: (1, 1),
}
