"""Independent encoder written from RFC 4271 / 1997 / 4360 / 4456 / 6793 / 7911 / 8092.
Shares no code with yabgp.  Every field may be a symbolic int."""

OPTIONAL, TRANSITIVE, PARTIAL, EXTLEN = 0x80, 0x40, 0x20, 0x10

FLAGS = {1: TRANSITIVE, 2: TRANSITIVE, 3: TRANSITIVE, 4: OPTIONAL, 5: TRANSITIVE, 6: TRANSITIVE,
         7: OPTIONAL | TRANSITIVE, 8: OPTIONAL | TRANSITIVE, 9: OPTIONAL, 10: OPTIONAL, 14: OPTIONAL, 15: OPTIONAL,
         16: OPTIONAL | TRANSITIVE, 17: OPTIONAL | TRANSITIVE, 18: OPTIONAL | TRANSITIVE, 32: OPTIONAL | TRANSITIVE}


def _octets(v, n):
    """big-endian octets of v.  Under the symbolic engine a symbolic v is split into n fresh octet
    variables tied to it by one linear constraint (the unique base-256 decomposition)."""
    try:
        from vf.engine.ch_ext import skolem_octets
        o = skolem_octets(v, n)
        if o is not None:
            return o
    except ImportError:
        pass
    return [(v // 256 ** (n - 1 - i)) % 256 for i in range(n)]


def u8(v):
    return bytes([v])


def u16(v):
    return bytes(_octets(v, 2))


def u32(v):
    return bytes(_octets(v, 4))


def attr(code, value, ext=False, flags=None):
    f = FLAGS.get(code, OPTIONAL | TRANSITIVE) if flags is None else flags
    if ext or len(value) > 255:
        return bytes([f | EXTLEN, code]) + u16(len(value)) + value
    return bytes([f, code, len(value)]) + value


def origin(v, **kw):
    return attr(1, u8(v), **kw)


def as_path(segments, as4, code=2, **kw):
    out = b''
    for (t, asns) in segments:
        out += bytes([t, len(asns)])
        for a in asns:
            out += u32(a) if as4 else u16(a)
    return attr(code, out, **kw)


def next_hop(o, **kw):
    return attr(3, bytes(list(o)), **kw)


def med(v, **kw):
    return attr(4, u32(v), **kw)


def local_pref(v, **kw):
    return attr(5, u32(v), **kw)


def atomic_aggregate(**kw):
    return attr(6, b'', **kw)


def aggregator(asn, o, as4, code=7, **kw):
    return attr(code, (u32(asn) if as4 else u16(asn)) + bytes(list(o)), **kw)


def communities(pairs, **kw):
    out = b''
    for (hi, lo) in pairs:
        out += u16(hi) + u16(lo)
    return attr(8, out, **kw)


def originator_id(o, **kw):
    return attr(9, bytes(list(o)), **kw)


def cluster_list(ids, **kw):
    out = b''
    for o in ids:
        out += bytes(list(o))
    return attr(10, out, **kw)


def ext_communities(items, **kw):
    out = b''
    for it in items:
        out += bytes(list(it))
    return attr(16, out, **kw)


def large_communities(triples, **kw):
    out = b''
    for (a, b, c) in triples:
        out += u32(a) + u32(b) + u32(c)
    return attr(32, out, **kw)


def prefix(octets, plen, path_id=None):
    """<length, prefix> with ceil(plen/8) octets; octets are sent as given (trailing bits not cleared)"""
    n = (plen + 7) // 8
    out = (u32(path_id) if path_id is not None else b'') + bytes([plen]) + bytes(list(octets[:n]))
    return out


def update_body(withdrawn=b'', attrs=b'', nlri=b''):
    return u16(len(withdrawn)) + withdrawn + u16(len(attrs)) + attrs + nlri


def masked_text(octets, plen):
    """canonical text of a prefix whose trailing bits are cleared"""
    o = list(octets) + [0, 0, 0, 0]
    n = (plen + 7) // 8
    out = []
    for i in range(4):
        if i < n - 1 or (i == n - 1 and plen % 8 == 0):
            out.append(o[i])
        elif i == n - 1:
            k = 2 ** (8 - plen % 8)
            out.append((o[i] // k) * k)
        else:
            out.append(0)
    return '%s.%s.%s.%s/%s' % (out[0], out[1], out[2], out[3], plen)
