"""RFC 4271 section 8 state machine, profiled for yabgp's documented options, as a
*relation*: check(state, event, ctx, obs) is true iff the observed reaction is one
the profile allows (DESIGN.md appendix A).  Written from the RFC; shares no code
with yabgp.

Profile: active-only speaker (no listener, no collision detection), DelayOpen
off, DampPeerOscillations / IdleHold on, SendNOTIFICATIONwithoutOPEN off.

obs keys: state (1..6), writes (list of (type,) or (3, code, sub)), close (number of
loseConnection calls on the session's transport in this step), connects (number of
connectTCP calls in this step), cbs (handler callback names in order).
ctx keys (only those the event needs): hold (negotiated hold time of the session),
sub (expected NOTIFICATION subcode for header / OPEN errors).
"""
IDLE, CONNECT, ACTIVE, OPENSENT, OPENCONFIRM, ESTABLISHED = 1, 2, 3, 4, 5, 6

OPEN, UPDATE, NOTIFICATION, KEEPALIVE_T, ROUTE_REFRESH = 1, 2, 3, 4, 5


def N(code, sub):
    return (3, code, sub)


def _no_reports(cbs, allowed=()):
    for c in cbs:
        if c not in allowed:
            return False
    return True


def check(state, ev, ctx, obs):
    if not _check(state, ev, ctx, obs):
        return False
    # timer facts the RFC states for whole classes of transitions (only when the observation carries timers)
    tm = obs.get('timers')
    if tm is not None:
        st = obs['state']
        if ev == 'manual_stop' and (tm['connect_retry'] is not None or tm['hold'] is not None or
                                    tm['keepalive'] is not None or tm['idle_hold'] is not None):
            # ManualStop: "sets the ConnectRetryTimer to zero", drops the connection - nothing may be left armed that
            # could make the agent act before the operator starts it again
            return False
        if st == IDLE and state != IDLE and ev != 'manual_stop' and obs['close'] == 0 and not ctx.get('closing_pending'):
            # profile: IdleHold / automatic restart on.  A session that ends without the agent having anything left to
            # close (the peer dropped the connection, the attempt failed) arms the IdleHoldTimer right away
            if tm['idle_hold'] is None:
                return False
        if state == OPENCONFIRM and st == ESTABLISHED and ev == 'ka' and ctx.get('hold'):
            # OpenConfirm / KeepAliveMsg: "restarts the HoldTimer and changes its state to Established"
            if tm['hold'] != ctx['hold']:
                return False
        if state == ESTABLISHED and st == ESTABLISHED and ev in ('ka', 'upd', 'upd_bad') and ctx.get('hold'):
            # events 26 / 27: "restarts its HoldTimer, if the negotiated HoldTime value is non-zero"
            if tm['hold'] != ctx['hold']:
                return False
        if state == CONNECT and ev == 'tcp_ok' and st == OPENSENT:
            # "stops the ConnectRetryTimer (if running) and sets it to zero ... sets the HoldTimer to a large value"
            # (a timer left armed but without effect in Idle is not judged: the property speaks of state, messages and
            # closes; what a stale timer does when it fires is judged by the sequence obligations)
            if tm['connect_retry'] is not None or tm['hold'] is None:
                return False
    return True


def _check(state, ev, ctx, obs):
    st, wr, close, conn, cbs = obs['state'], obs['writes'], obs['close'], obs['connects'], obs['cbs']
    in_session = state in (OPENSENT, OPENCONFIRM, ESTABLISHED)

    # ---- operator ---------------------------------------------------------------------------
    if ev == 'manual_stop':
        if state == ESTABLISHED:
            return st == IDLE and wr == [N(6, 0)] and close >= 1 and conn == 0
        if in_session:
            # RFC sends Cease; property C13 requires it only when Established: both allowed
            return st == IDLE and wr in ([], [N(6, 0)]) and close >= 1 and conn == 0
        return st == IDLE and wr == [] and conn == 0
    if ev == 'manual_start':
        if state == IDLE:
            return st == CONNECT and wr == [] and conn == 1 and close == 0
        # "Start" while not Idle is ignored
        return st == state and wr == [] and conn == 0 and close == 0

    if ev == 'start_idlehold' and state != IDLE:
        # a stale idle-hold expiry (the operator restarted the peer meanwhile): ignored in every other state
        return st == state and wr == [] and conn == 0 and close == 0

    if ev == 'close_done' and state != IDLE:
        # the TCP close of the *previous* connection completes while the next attempt / session is already
        # under way: not an FSM event, nothing changes
        return st == state and wr == [] and conn == 0 and close == 0

    # ---- Idle -----------------------------------------------------------------------------------
    if state == IDLE:
        if ev == 'start_idlehold':
            return st == CONNECT and wr == [] and conn == 1
        if ev == 'close_done':
            return st == IDLE and wr == [] and conn == 0
        return st == IDLE and wr == [] and conn == 0 and close == 0

    # ---- Connect ----------------------------------------------------------------------------------
    if state == CONNECT:
        if ev == 'tcp_ok':
            # the OPEN carries version 4, the configured AS (AS_TRANS when it does not fit) and the *configured* hold time
            if 'open' in ctx and obs.get('opens') != [ctx['open']]:
                return False
            return st == OPENSENT and wr == [(OPEN,)] and close == 0 and conn == 0
        if ev == 'tcp_fail':
            return st == IDLE and wr == [] and conn == 0
        if ev == 'crt':
            return st == CONNECT and wr == [] and conn == 1
        return False

    # ---- OpenSent / OpenConfirm / Established ---------------------------------------------------------
    def closes_with(notes):
        return st == IDLE and wr in notes and close >= 1 and conn == 0

    if ev == 'hdr':
        # header error: Message Header Error with the subcode; nothing is reported to the application (a KEEPALIVE that
        # carries a body is a received KEEPALIVE - C18 counts it - and may be reported as one before it is rejected)
        return closes_with([[N(1, ctx['sub'])]]) and _no_reports(cbs, ctx.get('reports_ok', ()))
    if ev == 'holdt':
        if state in (OPENCONFIRM, ESTABLISHED) and ctx.get('hold') == 0:
            # with a negotiated hold time of zero the hold timer is not running: it cannot expire
            return False
        return closes_with([[N(4, 0)]])
    if ev == 'peer_close':
        # TcpConnectionFails.  RFC: OpenSent -> Active; an active-only speaker has nothing to listen on,
        # so Idle (restart pending) is what the profile allows.
        return st == IDLE and wr == [] and conn == 0
    if ev == 'notif_ver' or ev == 'notif':
        # answering a NOTIFICATION with a NOTIFICATION (literal reading for OpenSent) or with nothing: both allowed
        return st == IDLE and wr in ([], [N(5, 0)]) and close >= 1 and conn == 0 and \
            _no_reports(cbs, ('notification_received',))
    if ev == 'open_bad':
        if state == ESTABLISHED:
            return closes_with([[N(5, 0)], [N(2, ctx['sub'])]])
        return closes_with([[N(2, ctx['sub'])]])
    if ev == 'open_short':
        return closes_with([[N(1, 2)]])

    if state == OPENSENT:
        if ev == 'open_ok':
            return st == OPENCONFIRM and wr == [(KEEPALIVE_T,)] and close == 0 and conn == 0
        if ev in ('ka', 'upd', 'upd_bad', 'crt', 'kat'):
            return closes_with([[N(5, 0)]])
        if ev in ('rr', 'rr128'):
            # RFC 2918 is silent before Established: FSM error, or report-and-ignore
            return closes_with([[N(5, 0)]]) or (st == OPENSENT and wr == [] and close == 0)
        return False

    if state == OPENCONFIRM:
        if ev == 'ka':
            return st == ESTABLISHED and wr == [] and close == 0 and conn == 0 and cbs.count('on_established') == 1
        if ev == 'kat':
            return st == OPENCONFIRM and wr == [(KEEPALIVE_T,)] and close == 0
        if ev == 'open_ok':
            # no collision possible on a single connection: ignore, or FSM error / Cease(7)
            return (st == OPENCONFIRM and wr == [] and close == 0) or closes_with([[N(5, 0)], [N(6, 7)]])
        if ev in ('upd', 'upd_bad', 'crt'):
            return closes_with([[N(5, 0)]])
        if ev in ('rr', 'rr128'):
            return closes_with([[N(5, 0)]]) or (st == OPENCONFIRM and wr == [] and close == 0)
        return False

    if state == ESTABLISHED:
        if ev == 'ka':
            return st == ESTABLISHED and wr == [] and close == 0 and conn == 0
        if ev == 'upd':
            return st == ESTABLISHED and wr == [] and close == 0 and cbs.count('update_received') == 1 and \
                cbs.count('on_update_error') == 0
        if ev == 'upd_bad':
            # property C10 overrides RFC event 28: report, no NOTIFICATION, session stays up
            return st == ESTABLISHED and wr == [] and close == 0 and cbs.count('on_update_error') == 1 and \
                cbs.count('update_received') == 0
        if ev == 'kat':
            return st == ESTABLISHED and wr == [(KEEPALIVE_T,)] and close == 0
        if ev == 'open_ok':
            return closes_with([[N(5, 0)]])
        if ev in ('rr', 'rr128'):
            return st == ESTABLISHED and wr == [] and close == 0 and cbs.count('route_refresh_received') == 1
        if ev == 'crt':
            return closes_with([[N(5, 0)]])
        return False
    return False
