"""The session world: the real BGPPeering / FSM / BGP / BGPTimer objects on the
Twisted model of vf/env/twisted_stub.py, with a recording handler.

Two ways to obtain a world:
  boot(cfg)                       fresh peering, nothing started (history obligations)
  in_state(state, ...)            the objects placed *directly* in an arbitrary state that
                                  satisfies the shared invariant (one-step obligations)

Events are injected through the real entry points only (see World methods).
"""
import struct
from queue import Queue

from vf.env.twisted_stub import REACTOR

IDLE, CONNECT, ACTIVE, OPENSENT, OPENCONFIRM, ESTABLISHED = 1, 2, 3, 4, 5, 6
STATE_NAMES = {1: 'IDLE', 2: 'CONNECT', 3: 'ACTIVE', 4: 'OPENSENT', 5: 'OPENCONFIRM', 6: 'ESTABLISHED'}

MARKER = b'\xff' * 16


def frame(msg_type, body=b''):
    return MARKER + struct.pack('!HB', 19 + len(body), msg_type) + body


def rfc_open(version=4, asn=65002, hold=180, bgp_id=0x0A000002, caps=b''):
    """reference OPEN (RFC 4271 4.2); caps = already encoded optional parameters"""
    return frame(1, struct.pack('!BHHIB', version, asn, hold, bgp_id, len(caps)) + caps)


def cap_param(code, value=b''):
    """one optional parameter (type 2) holding one capability (RFC 5492)"""
    cap = struct.pack('!BB', code, len(value)) + value
    return struct.pack('!BB', 2, len(cap)) + cap


def cap_as4(asn):
    return cap_param(65, struct.pack('!I', asn))


KEEPALIVE = frame(4)


def rfc_notification(code, sub, data=b''):
    return frame(3, struct.pack('!BB', code, sub) + data)


def rfc_route_refresh(afi=1, safi=1, res=0, msg_type=5):
    return frame(msg_type, struct.pack('!HBB', afi, res, safi))


def rfc_update_min():
    """minimal well-formed UPDATE (no withdrawn routes, no attributes, no NLRI)"""
    return frame(2, struct.pack('!HH', 0, 0))


def rfc_update_announce(prefix_octets=(10,), plen=8, origin=0, asn=65002, nexthop=(10, 0, 0, 2)):
    attrs = bytes([0x40, 1, 1, origin]) + bytes([0x40, 2, 4, 2, 1]) + struct.pack('!H', asn) + \
        bytes([0x40, 3, 4]) + bytes(nexthop)
    return frame(2, struct.pack('!H', 0) + struct.pack('!H', len(attrs)) + attrs + bytes([plen]) + bytes(prefix_octets))


class RecordingHandler(object):
    """BaseHandler stand-in that records every callback (full abstract interface;
    a missing attribute would be swallowed by parse_buffer's catch-all)."""

    def __init__(self):
        self.inter_mq = Queue()
        self.log = []

    def init(self):
        self.log.append(('init',))

    def on_update_error(self, peer, timestamp, msg):
        self.log.append(('on_update_error', msg))

    def update_received(self, peer, timestamp, msg):
        self.log.append(('update_received', msg))

    def keepalive_received(self, peer, timestamp):
        self.log.append(('keepalive_received',))

    def open_received(self, peer, timestamp, result):
        self.log.append(('open_received', result))

    def send_open(self, peer, timestamp, result):
        self.log.append(('send_open', result))

    def route_refresh_received(self, peer, msg, msg_type):
        self.log.append(('route_refresh_received', msg, msg_type))

    def notification_received(self, peer, msg):
        self.log.append(('notification_received', msg))

    def on_connection_lost(self, peer):
        self.log.append(('on_connection_lost',))

    def on_connection_failed(self, peer, msg):
        self.log.append(('on_connection_failed', msg))

    def on_established(self, peer, msg):
        self.log.append(('on_established',))


DEFAULT_CFG = dict(local_as=65001, remote_as=65002, local_addr='10.0.0.1', remote_addr='10.0.0.2',
                   hold_time=180, keep_alive_time=60, connect_retry_time=30, idle_hold_time=30,
                   delay_open_time=10, rib=False, afi_safi=['ipv4'],
                   caps={'four_bytes_as': True, 'route_refresh': True, 'cisco_route_refresh': True,
                         'enhanced_route_refresh': True, 'graceful_restart': True, 'cisco_multi_session': True,
                         'add_path': None, 'afi_safi': [(1, 1)]},
                   bgp_id=0x0A000001)

_conf_ready = False


def _conf():
    global _conf_ready
    from oslo_config import cfg
    import yabgp.config  # noqa: F401  registers bgp/time groups
    import yabgp.api.config  # noqa: F401
    if not _conf_ready:
        # modules that register command-line options must be imported before the (empty) command line is parsed
        import yabgp.api.app  # noqa: F401
        import yabgp.handler.default_handler  # noqa: F401
    if not _conf_ready:
        try:
            cfg.CONF(args=[], project='yabgp', default_config_files=[])
        except Exception:
            pass
        _conf_ready = True
    return cfg.CONF


class _TimeNS(object):
    pass


class ConfProxy(object):
    """stands in for the module-level name CONF inside yabgp.core.fsm / yabgp.core.protocol: group `time` is a
    plain namespace (so configured times may be symbolic - oslo.config would coerce, i.e. realise, them);
    everything else is the real oslo CONF."""

    def __init__(self, real, time_ns):
        object.__setattr__(self, '_real', real)
        object.__setattr__(self, 'time', time_ns)

    def __getattr__(self, name):
        return getattr(object.__getattribute__(self, '_real'), name)


_CLASS_STATE = {}


def _reset_class_state():
    """Every World is a fresh process as far as the session classes go: mutable class-level attributes (state that all
    instances share) are restored to what they were at import, so nothing leaks from one explored path into the next.
    Within one path they are shared exactly as in the real process."""
    import copy
    from yabgp.core.factory import BGPPeering, BGPFactory
    from yabgp.core.protocol import BGP
    from yabgp.core.fsm import FSM
    from yabgp.core.timer import BGPTimer
    for cls in (BGPPeering, BGPFactory, BGP, FSM, BGPTimer):
        for k, v in list(cls.__dict__.items()):
            if isinstance(v, (dict, list, set)) and not k.startswith('__'):
                key = (cls.__name__, k)
                if key not in _CLASS_STATE:
                    _CLASS_STATE[key] = copy.deepcopy(v)
                else:
                    setattr(cls, k, copy.deepcopy(_CLASS_STATE[key]))


class World(object):
    def __init__(self, cfgd=None):
        _reset_class_state()
        c = dict(DEFAULT_CFG)
        c.update(cfgd or {})
        self.cfg = c
        CONF = _conf()
        REACTOR.reset_world()
        self.reactor = REACTOR
        self._time_keys = ('hold_time', 'keep_alive_time', 'connect_retry_time', 'idle_hold_time', 'delay_open_time')
        for k in self._time_keys:
            if type(c[k]) is int:
                CONF.set_override(k, c[k], group='time')
        CONF.set_override('rib', c['rib'], group='bgp')
        CONF.set_override('afi_safi', c['afi_safi'], group='bgp')
        caps = dict(c['caps'])
        CONF.bgp.running_config = {
            'remote_as': c['remote_as'], 'remote_addr': c['remote_addr'], 'local_as': c['local_as'],
            'local_addr': c['local_addr'], 'md5': None, 'afi_safi': [(1, 1)],
            'capability': {'local': caps, 'remote': {}},
        }
        self.CONF = CONF
        from yabgp.core.factory import BGPPeering
        self.handler = RecordingHandler()
        self.peering = BGPPeering(myasn=c['local_as'], myaddr=c['local_addr'], peerasn=c['remote_as'],
                                  peeraddr=c['remote_addr'], afisafi=[(1, 1)], md5=c.get('md5'), handler=self.handler)
        self.peering.bgp_id = c['bgp_id']
        self.reactor.md5_refused = bool(c.get('md5_refused'))
        CONF.bgp.running_config['factory'] = self.peering
        self.fsm = self.peering.fsm
        # configured times may be symbolic: oslo.config would coerce (realise) them, so they are put where
        # FSM.__init__ copies them to, and the name CONF inside the session modules sees them as group `time`
        for k in self._time_keys:
            setattr(self.fsm, k, c[k])
        tns = _TimeNS()
        for k in self._time_keys:
            setattr(tns, k, c[k])
        tns.bgp_peer_call_later_time = 15
        import yabgp.core.fsm as _fsm_mod
        import yabgp.core.protocol as _proto_mod
        proxy = ConfProxy(CONF, tns)
        _fsm_mod.CONF = proxy
        _proto_mod.CONF = proxy
        self.errors = []

    # ---- observation ---------------------------------------------------------------
    @property
    def state(self):
        return self.fsm.state

    def timers(self):
        f = self.fsm
        return {'connect_retry': f.connect_retry_timer, 'hold': f.hold_timer, 'keepalive': f.keep_alive_timer,
                'delay_open': f.delay_open_timer, 'idle_hold': f.idle_hold_timer}

    def timer_active(self, name):
        t = self.timers()[name]
        dc = t.delayed_call
        return dc is not None and dc.active()

    def timer_deadline(self, name):
        return self.timers()[name].delayed_call.time

    def live_connectors(self):
        return self.reactor.live_connectors()

    def current_connector(self):
        live = self.live_connectors()
        return live[-1] if live else None

    def protocol(self):
        return self.fsm.protocol

    def wire(self, since=0):
        """[(transport, time, bytes)] written since index"""
        return self.reactor.wire[since:]

    def wire_types(self, since=0):
        """message types (and NOTIFICATION code/subcode) written since index"""
        out = []
        for (_t, _time, data) in self.reactor.wire[since:]:
            out.extend(split_types(data))
        return out

    def mark(self):
        return {'wire': len(self.reactor.wire), 'lose': len(self.reactor.lose_log),
                'conn': len(self.reactor.connectors), 'hlog': len(self.handler.log),
                'aborted': len(self.reactor.aborted)}

    # ---- events (real entry points) ------------------------------------------------------
    def ev_auto_start(self):
        self.peering.automatic_start()

    def ev_manual_start(self):
        return self.peering.manual_start()

    def ev_manual_stop(self):
        return self.peering.manual_stop()

    def ev_tcp_ok(self, connector=None):
        c = connector or self._connecting()
        return c.world_connect_ok()

    def ev_tcp_fail(self, connector=None):
        c = connector or self._connecting()
        c.world_connect_fail()

    def ev_conn_lost(self, connector=None):
        c = connector or self._connected()
        c.world_connection_lost()

    def ev_data(self, data, connector=None):
        c = connector or self._connected()
        if c.transport.disconnecting:
            raise AssertionError('environment error: data delivered after loseConnection')
        c.protocol.dataReceived(data)

    def ev_fire(self, name):
        dc = self.timers()[name].delayed_call
        if self.reactor.now < dc.time:
            self.reactor.now = dc.time
        dc.fire()

    def _connecting(self):
        for c in self.reactor.connectors:
            if c.state == 'connecting':
                return c
        raise AssertionError('no pending connector')

    def _connected(self):
        # the connection in use: connected and not being closed by the agent (else the newest connected one)
        for c in reversed(self.reactor.connectors):
            if c.state == 'connected' and not c.transport.disconnecting:
                return c
        for c in reversed(self.reactor.connectors):
            if c.state == 'connected':
                return c
        raise AssertionError('no connected connector')

    # ---- direct construction of a state ------------------------------------------------------
    def put_connected(self):
        """a connected transport with a BGP protocol bound to the FSM, no bytes exchanged yet"""
        from vf.env.twisted_stub import Connector, Transport
        from yabgp.core.protocol import BGP
        c = Connector(self.reactor, self.cfg['remote_addr'], 179, self.peering, 30, (self.cfg['local_addr'], 0))
        c.state = 'connected'
        self.reactor.connectors.append(c)
        t = Transport(self.reactor, c)
        c.transport = t
        p = BGP()
        p.init_rib()          # what connectionMade() does first: the tables of this connection
        p.factory = self.peering
        p.bgp_peering = self.peering
        p.fsm = self.fsm
        self.fsm.protocol = p
        self.peering.estab_protocol = p
        p.connected = 1
        p.transport = t
        c.protocol = p
        t.protocol = p
        self.peering.connector = c
        return c

    def put_connecting(self):
        from vf.env.twisted_stub import Connector
        c = Connector(self.reactor, self.cfg['remote_addr'], 179, self.peering, 30, (self.cfg['local_addr'], 0))
        self.reactor.connectors.append(c)
        self.peering.connector = c      # Inv: the pending attempt is the one the peering tracks
        return c


def split_types(data):
    """message types in a byte string written by the agent (it always writes whole messages):
    [(type,)] or [(3, code, subcode)] for NOTIFICATION"""
    out = []
    i = 0
    n = len(data)
    while i + 19 <= n:
        length = data[i + 16] * 256 + data[i + 17]
        typ = data[i + 18]
        if typ == 3 and i + 21 <= n:
            out.append((3, data[i + 19], data[i + 20]))
        else:
            out.append((typ,))
        if length < 19:
            break
        i += length
    return out


def in_state(state, cfgd=None, hold=None, now=0, allow_auto=True, counters=None, closing=False, old_closing=False,
             pending_attempt=False, old_closed=False, stale_hold=None, stale_hold_timer=None):
    """Place the real objects in `state` satisfying the shared invariant (DESIGN app. B):
       Idle(auto): idle-hold armed;  Idle(stopped): nothing armed
       Connect: one connector connecting, connect-retry armed
       OpenSent: connected, OPEN sent (counted), hold timer = large hold time
       OpenConfirm/Established: connected, negotiated hold `hold`; hold+keepalive armed iff hold > 0
    `hold` (negotiated hold time) and `now` may be symbolic."""
    w = World(cfgd)
    f = w.fsm
    w.reactor.now = now
    if hold is None:
        hold = w.cfg['hold_time']
    if state == IDLE:
        f.allow_automatic_start = allow_auto
        if closing:
            # Idle right after the agent closed a session: loseConnection issued, connectionLost still pending
            c = w.put_connected()
            c.transport.disconnecting = 1
            c.protocol.disconnected = True
            c.protocol.msg_sent_stat['Opens'] = 1
            w.reactor.lose_log.append((c.transport, now))
        if allow_auto:
            f.idle_hold_timer.reset(f.idle_hold_time)
    elif state == CONNECT:
        w.put_connecting()
        f.connect_retry_timer.reset(f.connect_retry_time)
        f.__dict__['state'] = CONNECT
        w.peering.status = True
    else:
        c = w.put_connected()
        p = c.protocol
        p.msg_sent_stat['Opens'] = 1
        w.peering.status = True
        if state == OPENSENT:
            f.hold_timer.reset(f.large_hold_time)
        else:
            f.hold_time = hold
            f.keep_alive_time = hold / 3
            p.msg_recv_stat['Opens'] = 1
            p.msg_sent_stat['Keepalives'] = 1
            w.peering.peer_id = '10.0.0.2'
            p.peer_id = '10.0.0.2'
            if state == ESTABLISHED:
                p.msg_recv_stat['Keepalives'] = 1
                f.uptime = 999000.0
            if hold > 0:
                f.hold_timer.reset(hold)
                f.keep_alive_timer.reset(f.keep_alive_time)
        f.__dict__['state'] = state
    if pending_attempt and state == IDLE:
        # Idle although an attempt is still pending: the previous connection finished closing *after* a stop/start
        # had already begun the next attempt (connection_closed() resets the state to Idle)
        w.put_connecting()
        w.peering.status = True
    if old_closing:
        # the previous connection: loseConnection() called by the agent, connectionLost not delivered yet
        cur_p, cur_estab, cur_conn = f.protocol, w.peering.estab_protocol, getattr(w.peering, 'connector', None)
        c_old = w.put_connected()
        c_old.transport.disconnecting = 1
        c_old.protocol.disconnected = True
        c_old.protocol.msg_sent_stat['Opens'] = 1
        w.reactor.lose_log.append((c_old.transport, now))
        w.old_connector = c_old
        # it was created before the current attempt / connection
        w.reactor.connectors.remove(c_old)
        w.reactor.connectors.insert(0, c_old)
        if state not in (IDLE, CONNECT):
            f.protocol, w.peering.estab_protocol = cur_p, cur_estab
        w.peering.connector = cur_conn
    if stale_hold is not None and state in (IDLE, CONNECT):
        # what an earlier session negotiated is still in the FSM until the next connection is made
        f.hold_time = stale_hold
        f.keep_alive_time = stale_hold / 3
    if stale_hold_timer is not None and state in (IDLE, CONNECT):
        # reachable on the pinned tree: a connection dropped by the peer in OpenSent leaves the 240 s hold timer armed (a
        # version-error NOTIFICATION in OpenConfirm the negotiated one): it is still running in Idle / Connect
        f.hold_timer.reset(stale_hold_timer)
    if old_closed:
        # an earlier connection of this peer that is completely over (connectionLost delivered): the FSM keeps
        # pointing at its protocol object until the next connection is built
        cur_p, cur_estab, cur_conn = f.protocol, w.peering.estab_protocol, getattr(w.peering, 'connector', None)
        c_old = w.put_connected()
        c_old.state = 'disconnected'
        c_old.transport.connected = 0
        c_old.transport.disconnecting = 0
        c_old.protocol.disconnected = True
        c_old.protocol.msg_sent_stat['Opens'] = 1
        w.dead_connector = c_old
        w.reactor.connectors.remove(c_old)
        w.reactor.connectors.insert(0, c_old)
        if state not in (IDLE, CONNECT):
            f.protocol, w.peering.estab_protocol = cur_p, cur_estab
        else:
            w.peering.estab_protocol = None
        w.peering.connector = cur_conn
    if counters:
        p = w.fsm.protocol
        for k, v in counters.get('sent', {}).items():
            p.msg_sent_stat[k] = v
        for k, v in counters.get('recv', {}).items():
            p.msg_recv_stat[k] = v
    return w


def boot(cfgd=None):
    w = World(cfgd)
    return w
