import argparse
import json
import os
import subprocess
import sys

ROOT = os.path.dirname(os.path.dirname(os.path.abspath(__file__)))


def main():
    ap = argparse.ArgumentParser(prog='check')
    ap.add_argument('prop')
    ap.add_argument('--tier', default=os.environ.get('VERIF_TIER') or 'quick', choices=['quick', 'thorough'])
    ap.add_argument('--replay')
    ap.add_argument('--budget', type=float, default=None, help='wall budget in seconds (0 = none)')
    ap.add_argument('--only')
    ap.add_argument('--jobs', type=int)
    ap.add_argument('-v', '--verbose', action='store_true')
    a = ap.parse_args()
    seed = int(os.environ.get('VERIF_SEED') or 0)
    if a.replay:
        env = dict(os.environ)
        env['PYTHONPATH'] = ROOT
        rc = subprocess.call([sys.executable, '-m', 'vf.replay', a.replay], env=env, cwd=ROOT)
        if rc == 1:
            print('VIOLATION property=%s replay=%s' % (a.prop, a.replay))
        sys.exit(rc)
    if a.prop == 'selftest':
        from vf import selftest
        sys.exit(selftest.main())
    from vf.engine import runner
    rc = runner.run_property(a.prop, tier=a.tier, seed=seed, budget=a.budget, only=a.only, jobs=a.jobs,
                             verbose=a.verbose)
    sys.exit(rc)


if __name__ == '__main__':
    main()
