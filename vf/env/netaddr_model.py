"""Model of the slice of netaddr yabgp uses, for *symbolic* values only.

For every concrete argument the real netaddr (1.3.0, installed) is called, so
the model is trivially faithful there.  Symbolic integers / strings are IPv4
only (a symbolic value is assumed < 2**32 - the same rule netaddr applies to an
int without explicit version); IPv6 / EUI values are realised, i.e. they are
*not* quantified by the solver (DESIGN 2.2 "P").

Validation: (a) the repository's own test-suite runs with this model bound in
every yabgp module (./check --selftest); (b) every counterexample is replayed
with the real netaddr; (c) obligations in C06 decide
int(IPAddress(str(IPAddress(v)))) == v for symbolic v.
"""
import struct
import types

import netaddr as _real

try:
    from crosshair.tracers import NoTracing
    from crosshair.util import CrossHairValue
    from crosshair.core import deep_realize
except Exception:  # pragma: no cover - replay interpreter without crosshair
    CrossHairValue = ()
    deep_realize = lambda x: x  # noqa

    class NoTracing(object):
        def __enter__(self):
            return self

        def __exit__(self, *a):
            return False

AddrFormatError = _real.core.AddrFormatError


def _is_sym(x):
    with NoTracing():
        return isinstance(x, CrossHairValue)


def _parse_v4(s):
    parts = s.split('.')
    if len(parts) != 4:
        raise AddrFormatError('invalid IPv4 address: %r' % (s,))
    octs = []
    for p in parts:
        x_ = _rope_int(p)
        if x_ is not None:
            # canonical decimal text of an int: digits only, no leading zero
            if x_ > 255:
                raise AddrFormatError('invalid IPv4 address')
            octs.append(x_)
            continue
        if len(p) == 0 or len(p) > 3:
            raise AddrFormatError('invalid IPv4 address')
        for ch in p:
            o_ = ord(ch)   # (ord comparison: string '<' on symbolic chars forks needlessly)
            if o_ < 48 or o_ > 57:
                raise AddrFormatError('invalid IPv4 address')
        if len(p) > 1 and p[0] == '0':
            # inet_pton rejects leading zeros
            raise AddrFormatError('invalid IPv4 address')
        o = int(p)
        if o > 255:
            raise AddrFormatError('invalid IPv4 address')
        octs.append(o)
    return _mk_int(octs), tuple(octs)


def _rope_int(p):
    try:
        from vf.engine.rope import Rope
    except Exception:  # pragma: no cover
        return None
    with NoTracing():
        if isinstance(p, Rope):
            return p._single_int()
    return None


def _mk_int(octs):
    try:
        from vf.engine.ch_ext import make_octet_int
    except Exception:  # pragma: no cover
        make_octet_int = None
    if make_octet_int is not None:
        return make_octet_int(list(octs))
    val = 0
    for o in octs:
        val = val * 256 + o
    return val


def _known_octets(v):
    try:
        from vf.engine.ch_ext import octets_of
    except Exception:  # pragma: no cover
        return None
    o = octets_of(v)
    if o is not None and len(o) == 4:
        return tuple(o)
    return None


class SymIPv4(object):
    """IPAddress with a symbolic 32-bit value."""
    version = 4

    def __init__(self, value, octets=None):
        self._value = value
        self._oct = octets if octets is not None else _known_octets(value)

    @property
    def value(self):
        return self._value

    def __int__(self):
        return self._value

    def __index__(self):
        return self._value

    def __vf_int__(self):
        return self._value

    @property
    def packed(self):
        if self._oct is not None:
            return bytes(list(self._oct))
        return struct.pack('!I', self._value)

    def _octets(self):
        """the four octets of the value.  For a symbolic value: four fresh solver
        variables o0..o3 in 0..255 with  value == o0*2^24 + o1*2^16 + o2*2^8 + o3
        (unique decomposition; linear, so z3 does not have to reason about nested
        div/mod)."""
        if self._oct is None:
            v = self._value
            made = None
            with NoTracing():
                if isinstance(v, CrossHairValue) and hasattr(v, 'var'):
                    import z3
                    from crosshair.statespace import context_statespace
                    from crosshair.libimpl.builtinslib import SymbolicInt
                    space = context_statespace()
                    names = [z3.Int('vfoct%d_%s' % (i, space.uniq())) for i in range(4)]
                    for o in names:
                        space.add(z3.And(o >= 0, o < 256))
                    space.add(v.var == ((names[0] * 256 + names[1]) * 256 + names[2]) * 256 + names[3])
                    made = tuple(SymbolicInt(o) for o in names)
            if made is None:
                made = (v // 16777216, (v // 65536) % 256, (v // 256) % 256, v % 256)
            self._oct = made
        return self._oct

    @property
    def words(self):
        return self._octets()

    def __str__(self):
        return '%s.%s.%s.%s' % self._octets()

    def __repr__(self):
        return "IPAddress('%s')" % self

    def __eq__(self, o):
        try:
            return self._value == int(o)
        except Exception:
            return NotImplemented

    def __hash__(self):
        return hash(self._value)

    def __hex__(self):
        return hex(self._value)


def IPAddress(addr, version=None, flags=0):
    if not _is_sym(addr):
        if version is None:
            return _real.IPAddress(addr, flags=flags)
        return _real.IPAddress(addr, version=version, flags=flags)
    with NoTracing():
        is_str = isinstance(addr, CrossHairValue) and (hasattr(type(addr), 'split') or hasattr(addr, 'split'))
    if is_str:
        if ':' in addr:
            return _real.IPAddress(deep_realize(addr))
        v_, o_ = _parse_v4(addr)
        return SymIPv4(v_, o_)
    # symbolic integer
    if version == 6:
        return SymIPv6(addr)
    if addr < 0:
        return _real.IPAddress(deep_realize(addr))
    if addr > 0xFFFFFFFF:
        if addr >= 2 ** 128:
            raise AddrFormatError('address out of range')
        return SymIPv6(addr)
    return SymIPv4(addr)


class SymIPv6(object):
    """IPAddress with a symbolic 128-bit value.  Its RFC 5952 text is not modelled: str() gives a rope with
    a lazy part that realises the value only if somebody actually looks at the characters."""
    version = 6

    def __init__(self, value):
        self._value = value

    @property
    def value(self):
        return self._value

    def __int__(self):
        return self._value

    def __index__(self):
        return self._value

    def __vf_int__(self):
        return self._value

    @property
    def packed(self):
        return self._value.to_bytes(16, 'big')

    def __str__(self):
        from vf.engine.rope import Rope, Lazy
        v = self._value
        with NoTracing():
            return Rope([Lazy(lambda: str(_real.IPAddress(int(deep_realize(v)), version=6)))])

    def __repr__(self):
        return "IPAddress('%s')" % self

    def __eq__(self, o):
        try:
            return self._value == int(o)
        except Exception:
            return NotImplemented

    def __hash__(self):
        return hash(self._value)


class SymIPv4Network(object):
    def __init__(self, vo, prefixlen):
        self._value, self._oct = vo
        self.prefixlen = prefixlen

    @property
    def value(self):
        return self._value

    @property
    def ip(self):
        return SymIPv4(self._value, self._oct)

    version = 4

    def __str__(self):
        return '%s/%s' % (SymIPv4(self._value, self._oct), self.prefixlen)


def IPNetwork(addr, version=None, flags=0):
    if not _is_sym(addr):
        return _real.IPNetwork(addr)
    if ':' in addr:
        return _real.IPNetwork(deep_realize(addr))
    parts = addr.split('/')
    if len(parts) == 1:
        return SymIPv4Network(_parse_v4(parts[0]), 32)
    if len(parts) != 2:
        raise AddrFormatError('invalid IPNetwork %r' % (addr,))
    plen_s = parts[1]
    x_ = _rope_int(plen_s)
    if x_ is not None:
        if x_ > 32:
            raise AddrFormatError('invalid prefix')
        return SymIPv4Network(_parse_v4(parts[0]), x_)
    if len(plen_s) == 0 or len(plen_s) > 2:
        return _real.IPNetwork(deep_realize(addr))
    for ch in plen_s:
        o_ = ord(ch)
        if o_ < 48 or o_ > 57:
            return _real.IPNetwork(deep_realize(addr))
    plen = int(plen_s)
    if plen > 32:
        raise AddrFormatError('invalid prefix')
    return SymIPv4Network(_parse_v4(parts[0]), plen)


class SymEUI(object):
    """EUI-48 with a symbolic value: text 'AA-BB-CC-DD-EE-FF' is a rope with a lazy part"""

    def __init__(self, value):
        self._value = value

    @property
    def value(self):
        return self._value

    def __int__(self):
        return self._value

    def __vf_int__(self):
        return self._value

    def __str__(self):
        from vf.engine.rope import Rope, Lazy
        v = self._value
        with NoTracing():
            return Rope([Lazy(lambda: str(_real.EUI(int(deep_realize(v)))))])


def EUI(addr, *a, **kw):
    if _is_sym(addr) and not a and not kw:
        with NoTracing():
            is_int = hasattr(addr, 'var') and not hasattr(type(addr), 'split')
        if is_int:
            if addr < 0 or addr >= 2 ** 48:
                return _real.EUI(deep_realize(addr))
            return SymEUI(addr)
    if _is_sym(addr):
        addr = deep_realize(addr)
    return _real.EUI(addr, *a, **kw)


def make_module():
    m = types.ModuleType('netaddr')
    m.__dict__.update({k: getattr(_real, k) for k in dir(_real) if not k.startswith('__')})
    m.IPAddress, m.IPNetwork, m.EUI = IPAddress, IPNetwork, EUI
    m.core = _real.core
    m._vf_model = True
    return m


MODEL = make_module()
