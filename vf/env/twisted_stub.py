"""Model of the slice of Twisted that yabgp uses (Twisted is not installed).

Contract implemented (hand-checked against the Twisted 20.3 documentation and
source of ``twisted.internet.base.DelayedCall``, ``abstract.FileDescriptor``,
``tcp.Connector`` / ``BaseClient``; *trusted* - no differential run is possible):

* ``reactor.callLater(d, f)`` returns a ``DelayedCall`` due at ``now + d``;
  ``cancel()/reset()`` raise ``AlreadyCalled`` / ``AlreadyCancelled`` exactly as
  Twisted does; ``active()`` is true until called or cancelled.
* ``reactor.connectTCP`` returns a ``Connector`` in state ``connecting`` and
  calls ``factory.startedConnecting``; the *environment* later decides its fate
  (``world_connect_ok`` -> ``buildProtocol`` + ``makeConnection`` ->
  ``connectionMade``; ``world_connect_fail`` -> ``clientConnectionFailed``).
* ``Transport.write`` appends to the connection's log while the connection is
  open (Twisted still flushes data written after ``loseConnection``);
  ``loseConnection`` marks the transport ``disconnecting`` and stops reading:
  no further ``dataReceived`` is delivered; ``connectionLost`` is delivered as
  a *separate* environment event, never synchronously.
* ``reactor.callFromThread(f, *a)`` runs ``f`` at once (single-threaded world).

The clock ``reactor.now`` is whatever number the harness puts there (int,
exact Ratio or a symbolic int).
"""
import sys
import types


class AlreadyCalled(Exception):
    pass


class AlreadyCancelled(Exception):
    pass


class ConnectionDone(Exception):
    pass


class ConnectionRefusedError(Exception):
    pass


class TimeoutError(Exception):
    pass


class UserError(Exception):
    pass


class Failure(object):
    def __init__(self, value=None, msg='connection lost'):
        self.value = value
        self.msg = msg

    def getErrorMessage(self):
        return self.msg

    def check(self, *a):
        return None


class DelayedCall(object):
    def __init__(self, reactor, time, func, args, kw):
        self.reactor = reactor
        self.time = time
        self.func, self.args, self.kw = func, args, kw
        self.cancelled = 0
        self.called = 0

    def getTime(self):
        return self.time

    def cancel(self):
        if self.cancelled:
            raise AlreadyCancelled
        elif self.called:
            raise AlreadyCalled
        self.cancelled = 1

    def reset(self, secondsFromNow):
        if self.cancelled:
            raise AlreadyCancelled
        elif self.called:
            raise AlreadyCalled
        self.time = self.reactor.now + secondsFromNow

    def delay(self, secondsLater):
        if self.cancelled:
            raise AlreadyCancelled
        elif self.called:
            raise AlreadyCalled
        self.time = self.time + secondsLater

    def active(self):
        return not (self.cancelled or self.called)

    # environment side
    def fire(self):
        assert self.active()
        self.called = 1
        self.func(*self.args, **self.kw)


class Address(object):
    def __init__(self, host, port):
        self.host, self.port, self.type = host, port, 'TCP'


class Transport(object):
    def __init__(self, reactor, connector):
        self.reactor = reactor
        self.connector = connector
        self.connected = 1
        self.disconnecting = 0
        self.log = []          # (time, bytes)
        self.lose_calls = 0
        self.nodelay = None
        self.protocol = None

    def write(self, data):
        if not isinstance(data, (bytes, bytearray)):
            raise TypeError('Data must be bytes')
        if not self.connected:
            return
        self.log.append((self.reactor.now, data))
        self.reactor.wire.append((self, self.reactor.now, data))

    def writeSequence(self, seq):
        for d in seq:
            self.write(d)

    def loseConnection(self):
        self.lose_calls += 1
        if self.connected and not self.disconnecting:
            self.disconnecting = 1
            self.reactor.lose_log.append((self, self.reactor.now))

    def abortConnection(self):
        self.loseConnection()

    def setTcpNoDelay(self, v):
        self.nodelay = v

    def setTcpKeepAlive(self, v):
        pass

    def getHost(self):
        return Address(self.reactor.local_host, 40000)

    def getPeer(self):
        return Address(self.connector.host, self.connector.port)

    def getHandle(self):
        return self


class _PendingSocket(object):
    def __init__(self, reactor):
        self.reactor = reactor

    def setsockopt(self, level, opt, value):
        # the kernel may refuse a TCP-MD5 key (EINVAL for a key longer than 80 octets)
        if getattr(self.reactor, 'md5_refused', False):
            raise OSError(22, 'Invalid argument')
        self.reactor.sockopts.append((level, opt, value))


class _PendingClient(object):
    """transport of a connector whose TCP handshake has not finished"""
    connected = 0
    disconnecting = 0

    def __init__(self, reactor):
        self._sock = _PendingSocket(reactor)

    def getHandle(self):
        return self._sock


class Connector(object):
    def __init__(self, reactor, host, port, factory, timeout, bindAddress):
        self.reactor = reactor
        self.host, self.port, self.factory = host, port, factory
        self.timeout, self.bindAddress = timeout, bindAddress
        self.state = 'connecting'
        self.transport = _PendingClient(reactor)       # Twisted: the Client object exists as soon as connectTCP returns
        self.protocol = None
        self.created_at = reactor.now

    def stopConnecting(self):
        if self.state != 'connecting':
            raise Exception("we're not trying to connect")
        self.state = 'disconnected'
        self.reactor.aborted.append(self)
        # Twisted: BaseClient.failIfNotConnected -> Connector.connectionFailed -> factory.clientConnectionFailed,
        # synchronously, with error.UserError
        self.factory.clientConnectionFailed(self, Failure(UserError(), 'User aborted connection.'))

    def disconnect(self):
        if self.state == 'connecting':
            self.stopConnecting()
        elif self.state == 'connected':
            self.transport.loseConnection()

    def connect(self):
        if self.state != 'disconnected':
            raise RuntimeError("can't connect in this state")
        self.state = 'connecting'
        self.factory.startedConnecting(self)

    def getDestination(self):
        return Address(self.host, self.port)

    # --- environment events -------------------------------------------------
    def world_connect_ok(self):
        assert self.state == 'connecting'
        self.state = 'connected'
        self.transport = Transport(self.reactor, self)
        p = self.factory.buildProtocol(Address(self.host, self.port))
        self.protocol = p
        self.transport.protocol = p
        if p is not None:
            p.makeConnection(self.transport)
        return p

    def world_connect_fail(self, msg='Connection refused'):
        assert self.state == 'connecting'
        self.state = 'disconnected'
        self.factory.clientConnectionFailed(self, Failure(ConnectionRefusedError(), msg))

    def world_connection_lost(self, msg='Connection was closed cleanly.'):
        """TCP connection ends (peer closed it, or our loseConnection completed)."""
        assert self.state == 'connected'
        self.state = 'disconnected'
        t = self.transport
        t.connected = 0
        t.disconnecting = 0
        reason = Failure(ConnectionDone(), msg)
        if self.protocol is not None:
            self.protocol.connectionLost(reason)
        self.factory.clientConnectionLost(self, reason)


class Reactor(object):
    def __init__(self):
        self.reset_world()

    def reset_world(self):
        self.now = 0
        self.calls = []
        self.connectors = []
        self.wire = []        # (transport, time, bytes) in global order
        self.lose_log = []
        self.aborted = []
        self.local_host = '10.0.0.1'
        self.md5_refused = False
        self.sockopts = []
        self.running = False

    def seconds(self):
        return self.now

    def callLater(self, delay, func, *args, **kw):
        dc = DelayedCall(self, self.now + delay, func, args, kw)
        self.calls.append(dc)
        return dc

    def callFromThread(self, f, *a, **kw):
        return f(*a, **kw)

    def callInThread(self, f, *a, **kw):
        return f(*a, **kw)

    def callWhenRunning(self, f, *a, **kw):
        return f(*a, **kw)

    def connectTCP(self, host, port, factory, timeout=30, bindAddress=None):
        c = Connector(self, host, port, factory, timeout, bindAddress)
        self.connectors.append(c)
        factory.startedConnecting(c)
        return c

    def listenTCP(self, *a, **kw):
        return None

    def suggestThreadPoolSize(self, n):
        pass

    def getThreadPool(self):
        return None

    def run(self, *a, **kw):
        self.running = True

    def stop(self):
        self.running = False

    # --- helpers for harnesses ----------------------------------------------
    def live_connectors(self):
        return [c for c in self.connectors if c.state in ('connecting', 'connected')]

    def active_calls(self):
        return [c for c in self.calls if c.active()]


class Protocol(object):
    connected = 0
    transport = None
    factory = None

    def makeConnection(self, transport):
        self.connected = 1
        self.transport = transport
        self.connectionMade()

    def connectionMade(self):
        pass

    def dataReceived(self, data):
        pass

    def connectionLost(self, reason=None):
        pass


class Factory(object):
    protocol = None
    numPorts = 0
    noisy = False

    @classmethod
    def forProtocol(cls, protocol, *args, **kwargs):
        f = cls(*args, **kwargs)
        f.protocol = protocol
        return f

    def doStart(self):
        pass

    def doStop(self):
        pass

    def startFactory(self):
        pass

    def stopFactory(self):
        pass

    def buildProtocol(self, addr):
        p = self.protocol()
        p.factory = self
        return p


class ClientFactory(Factory):
    def startedConnecting(self, connector):
        pass

    def clientConnectionFailed(self, connector, reason):
        pass

    def clientConnectionLost(self, connector, reason):
        pass


REACTOR = Reactor()


def install():
    """Put the model in sys.modules under the twisted names (only if the real
    package is absent)."""
    if 'twisted' in sys.modules and not getattr(sys.modules['twisted'], '_vf_stub', False):
        return False
    tw = types.ModuleType('twisted')
    tw._vf_stub = True
    tw.__path__ = []
    internet = types.ModuleType('twisted.internet')
    internet.__path__ = []
    proto = types.ModuleType('twisted.internet.protocol')
    proto.Protocol, proto.Factory, proto.ClientFactory = Protocol, Factory, ClientFactory
    err = types.ModuleType('twisted.internet.error')
    err.AlreadyCalled, err.AlreadyCancelled = AlreadyCalled, AlreadyCancelled
    err.ConnectionDone, err.ConnectionRefusedError, err.TimeoutError = \
        ConnectionDone, ConnectionRefusedError, TimeoutError
    internet.reactor, internet.protocol, internet.error = REACTOR, proto, err
    tw.internet = internet
    web = types.ModuleType('twisted.web')
    web.__path__ = []
    server = types.ModuleType('twisted.web.server')
    server.Site = lambda *a, **k: None
    wsgi = types.ModuleType('twisted.web.wsgi')
    wsgi.WSGIResource = lambda *a, **k: None
    web.server, web.wsgi = server, wsgi
    tw.web = web
    py = types.ModuleType('twisted.python')
    py.__path__ = []
    fail = types.ModuleType('twisted.python.failure')
    fail.Failure = Failure
    py.failure = fail
    tw.python = py
    sys.modules.update({
        'twisted': tw, 'twisted.internet': internet,
        'twisted.internet.reactor': REACTOR, 'twisted.internet.protocol': proto,
        'twisted.internet.error': err, 'twisted.web': web,
        'twisted.web.server': server, 'twisted.web.wsgi': wsgi,
        'twisted.python': py, 'twisted.python.failure': fail,
    })
    return True
