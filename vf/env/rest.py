"""REST glue: calls the real Flask view functions (with their real decorators: login_required,
log_request, makesure_peer_establish) inside a real request context.

Stubbed (and therefore outside the claim): Werkzeug's parsing of the Authorization header and of the JSON body
(`auth.get_auth()` returns the (username, password) the client sent; `request.get_json()` returns the posted
object), `hmac.compare_digest(a, b)` is `a == b`, and `flask.jsonify(obj)` returns the object itself (serialising
a symbolic value would realise it).
"""
import types


class Auth(object):
    def __init__(self, username, password):
        self.type = 'basic'
        self.username = username
        self.password = password

    def __bool__(self):
        return True


class Result(object):
    """what a view returned: status code and the (un-serialised) JSON object"""

    def __init__(self, status, obj):
        self.status, self.obj = status, obj


_ready = False


def app():
    global _ready
    from yabgp.api.app import app as flask_app
    import yabgp.api.v1 as v1
    import yabgp.api.utils as utils
    import flask_httpauth
    if not _ready:
        _ready = True
        # compare_digest works on native str/bytes only
        fake_hmac = types.SimpleNamespace(compare_digest=lambda a, b: a == b)
        flask_httpauth.hmac = fake_hmac
        fake_flask_v1 = _FlaskProxy(v1.flask)
        v1.flask = fake_flask_v1
        utils.flask = _FlaskProxy(utils.flask)
    return flask_app, v1


class _FlaskProxy(object):
    def __init__(self, real):
        self._real = real

    def jsonify(self, *a, **kw):
        return a[0] if a else kw

    def __getattr__(self, name):
        return getattr(self._real, name)


def call(endpoint, path, method='GET', creds=None, view_args=None, body=None, query=None):
    """run view function `endpoint` (e.g. 'v1.send_update_message') as the given request would"""
    flask_app, v1 = app()
    import flask
    v1.auth.get_auth = (lambda: Auth(creds[0], creds[1])) if creds is not None else (lambda: None)
    kw = {'method': method}
    if query:
        kw['query_string'] = query
    with flask_app.test_request_context(path, **kw):
        if body is not None:
            flask.request._cached_json = (body, body)
        rv = flask_app.view_functions[endpoint](**(view_args or {}))
    if isinstance(rv, tuple):
        return Result(rv[1], rv[0])
    if hasattr(rv, 'status_code'):
        return Result(rv.status_code, rv.get_data(as_text=True))
    return Result(200, rv)


def peer_rules():
    """every rule of the live URL map under /v1/peer/ with its methods"""
    flask_app, _ = app()
    out = []
    for rule in flask_app.url_map.iter_rules():
        if rule.rule.startswith('/v1/peer/'):
            methods = set(rule.methods) - {'HEAD'}
            if getattr(rule, 'provide_automatic_options', True) is not False:
                # OPTIONS answered by Flask itself (the view is not called); when a rule lists OPTIONS explicitly the
                # view runs for it - and flask_httpauth skips authentication for OPTIONS - so it is a method to check
                methods.discard('OPTIONS')
            for m in sorted(methods):
                out.append((rule.endpoint, rule.rule, m, sorted(rule.arguments)))
    return sorted(out)
