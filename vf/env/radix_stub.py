"""Model of py-radix (not installed): exact-match store + longest match over the
stored set.  Only add/delete/search_exact are on C19's path."""
import ipaddress


class Node(object):
    def __init__(self, prefix):
        self.prefix = prefix
        self.data = {}
        net = ipaddress.ip_network(prefix, strict=False)
        self.network, self.prefixlen, self.family = str(net.network_address), net.prefixlen, net.version


class Radix(object):
    def __init__(self):
        self._nodes = {}

    def add(self, prefix):
        if prefix not in self._nodes:
            self._nodes[prefix] = Node(prefix)
        return self._nodes[prefix]

    def delete(self, prefix):
        if prefix not in self._nodes:
            raise KeyError('match not found')
        del self._nodes[prefix]

    def search_exact(self, prefix):
        return self._nodes.get(prefix)

    def search_best(self, addr):
        a = ipaddress.ip_address(addr.split('/')[0])
        best = None
        for n in self._nodes.values():
            net = ipaddress.ip_network(n.prefix, strict=False)
            if a in net and (best is None or net.prefixlen > best.prefixlen):
                best = n
        return best

    def __contains__(self, addr):
        try:
            return self.search_best(addr) is not None
        except ValueError:
            return False

    def nodes(self):
        return list(self._nodes.values())

    def prefixes(self):
        return list(self._nodes.keys())
