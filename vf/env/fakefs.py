"""In-memory file system + clock for yabgp.handler.default_handler (C20).

Contract (stated, part of the claim):
 * files are append-only character sequences; `write` goes to a user-space buffer, `flush` / `close` move the buffer
   to "disk"; `os.fsync` is a no-op after flush;
 * a *crash* can be armed for the next flush: only the first k characters of the buffer reach the disk, then the
   process dies (Crash is raised and the handler object is abandoned);
 * `listdir` returns names in arbitrary (here: reversed) order - the code sorts;
 * `time.time()` returns strictly increasing values.
Not modelled: directory-entry durability, fsync failure, disk full, buffers flushing on their own (messages are far
below the 8 KiB buffer size).
"""


class Crash(BaseException):
    pass


class FS(object):
    def __init__(self):
        self.files = {}          # path -> str (content on disk)
        self.dirs = set(['/'])
        self.crash_at = None     # k: number of characters of the next flush that reach the disk
        self.t = 1000000
        self.tick = 1          # what one call of time.time() advances the clock by (0.25: several files per second)

    def norm(self, p):
        while '//' in p:
            p = p.replace('//', '/')
        return p


class FakeFile(object):
    def __init__(self, fs, name, mode):
        self.fs, self.name, self.mode = fs, fs.norm(name), mode
        self.buf = ''
        self.closed = False
        self.pos = 0
        if 'a' in mode or 'w' in mode:
            if self.name not in fs.files or 'w' in mode:
                fs.files[self.name] = ''

    def write(self, s):
        if self.closed:
            raise ValueError('I/O operation on closed file.')
        if isinstance(s, (bytes, bytearray)):
            s = s.decode('utf-8')
        else:
            s.encode('utf-8')        # a text file encodes what it is given: a lone surrogate raises UnicodeEncodeError
        self.buf += s
        return len(s)

    def flush(self):
        if self.closed:
            raise ValueError('I/O operation on closed file.')
        fs = self.fs
        if fs.crash_at is not None:
            k = fs.crash_at
            fs.crash_at = None
            if isinstance(k, tuple):
                # ('boundary', j): one of the boundary offsets of the line in flight
                n = len(self.buf)
                if k[0] == 'dense':
                    k = [0, 1, 2, 3, n // 4, n // 2, 3 * n // 4, n - 3, n - 2, n - 1, n][k[1]]
                else:
                    k = [0, 1, 2, n // 2, n - 2, n - 1, n][k[1]]
            fs.files[self.name] += self.buf[:k]
            self.buf = ''
            raise Crash()
        fs.files[self.name] += self.buf
        self.buf = ''

    def fileno(self):
        return 3

    def close(self):
        if not self.closed:
            self.flush()
            self.closed = True

    def __enter__(self):
        return self

    def __exit__(self, *a):
        self.closed = True
        return False

    def __iter__(self):
        data = self.fs.files[self.name][self.pos:]
        self.pos = len(self.fs.files[self.name])
        lines = data.split('\n')
        out = [ln + '\n' for ln in lines[:-1]]
        if lines[-1] != '':
            out.append(lines[-1])
        return iter([self._out(x) for x in out])

    def _out(self, data):
        return data.encode('utf-8') if 'b' in self.mode else data

    def read(self, n=-1):
        data = self.fs.files[self.name][self.pos:]
        if n is not None and n >= 0:
            data = data[:n]
        self.pos += len(data)
        return self._out(data)

    def readline(self):
        data = self.fs.files[self.name]
        j = data.find('\n', self.pos)
        j = len(data) if j < 0 else j + 1
        out = data[self.pos:j]
        self.pos = j
        return self._out(out)

    def readlines(self):
        return list(iter(self))

    def seek(self, offset, whence=0):
        size = len(self.fs.files[self.name])
        if whence == 0:
            self.pos = offset
        elif whence == 1:
            self.pos += offset
        else:
            self.pos = size + offset
        self.pos = max(0, min(size, self.pos))
        return self.pos

    def tell(self):
        return self.pos

    def truncate(self, size=None):
        size = self.pos if size is None else size
        self.fs.files[self.name] = self.fs.files[self.name][:size]
        return size


class FakePath(object):
    def __init__(self, fs):
        self.fs = fs

    def join(self, *a):
        import posixpath
        return posixpath.join(*a)

    def exists(self, p):
        p = self.fs.norm(p).rstrip('/') or '/'
        return p in self.fs.dirs or p in self.fs.files

    def getsize(self, p):
        return len(self.fs.files[self.fs.norm(p)])


class FakeOS(object):
    def __init__(self, fs):
        self.fs = fs
        self.path = FakePath(fs)
        self.environ = {'HOME': '/home'}

    SEEK_SET, SEEK_CUR, SEEK_END = 0, 1, 2
    sep = '/'
    linesep = '\n'

    def remove(self, p):
        self.fs.files.pop(self.fs.norm(p), None)

    def rename(self, a, b):
        self.fs.files[self.fs.norm(b)] = self.fs.files.pop(self.fs.norm(a))

    def makedirs(self, p, exist_ok=True):
        p = self.fs.norm(p).rstrip('/')
        parts = p.split('/')
        for i in range(1, len(parts) + 1):
            self.fs.dirs.add('/'.join(parts[:i]) or '/')

    def listdir(self, p):
        p = self.fs.norm(p).rstrip('/') + '/'
        names = [f[len(p):] for f in self.fs.files if f.startswith(p) and '/' not in f[len(p):]]
        return list(reversed(sorted(names)))

    def fsync(self, fd):
        pass


class FakeTime(object):
    def __init__(self, fs):
        self.fs = fs

    def time(self):
        self.fs.t += self.fs.tick
        return float(self.fs.t)


def install(module, fs):
    """bind os / open / time inside the handler module to the in-memory versions"""
    module.os = FakeOS(fs)
    module.time = FakeTime(fs)
    module.open = lambda name, mode='r': FakeFile(fs, name, mode)
