"""Deterministic stand-in for the `time` module as bound inside yabgp modules
during symbolic runs (CrossHair's own symbolic time.time() is a real-modelled
float that caps every path touching it at UNKNOWN)."""
import time as _real


class Clock(object):
    def __init__(self):
        self.t = 1000000
        self.step = 1

    def time(self):
        self.t += self.step
        return float(self.t)

    def reset(self, t=1000000):
        self.t = t

    def sleep(self, s):
        pass

    def __getattr__(self, name):
        return getattr(_real, name)


CLOCK = Clock()
