"""Import hook: makes /repo's *current working tree* importable for the checks.

1. environment models for the packages that are not installed (twisted, radix,
   simplejson) go into sys.modules;
2. every ``yabgp.*`` module (tests excluded) is compiled from today's source
   with *loop fuel*: ``while c:`` becomes ``while c and _vf_tick(site):``
   (AST transform, line numbers preserved) - the unwinding assertion;
3. in symbolic mode the names ``netaddr`` and ``time`` are rebound inside each
   yabgp module's namespace to the model / deterministic clock (never through
   sys.modules: oslo.config needs the real netaddr).

Nothing is cached: the encoding is whatever CrossHair builds while executing
the source that is in /repo when the check runs.
"""
import ast
import importlib.abc
import importlib.machinery
import importlib.util
import logging
import os
import sys

REPO = os.environ.get('VF_REPO', '/repo')

sys.dont_write_bytecode = True


class FuelExhausted(BaseException):
    """A loop ran more iterations than the harness allows (unwinding assertion).
    BaseException so that yabgp's catch-alls cannot swallow it."""


class Fuel(object):
    def __init__(self):
        self.limit = None      # None = unlimited
        self.count = {}
        self.sites_seen = set()

    def reset(self, limit=None):
        self.limit = limit
        self.count = {}


FUEL = Fuel()


def _vf_tick(site):
    f = FUEL
    f.sites_seen.add(site)
    if f.limit is None:
        return True
    n = f.count.get(site, 0) + 1
    f.count[site] = n
    if n > f.limit:
        raise FuelExhausted(site)
    return True


class _FuelTransformer(ast.NodeTransformer):
    def __init__(self, path):
        self.path = path
        self.sites = []

    def visit_While(self, node):
        self.generic_visit(node)
        site = '%s:%d' % (self.path, node.lineno)
        self.sites.append(site)
        tick = ast.Call(func=ast.Name(id='_vf_tick', ctx=ast.Load()),
                        args=[ast.Constant(value=site)], keywords=[])
        new_test = ast.BoolOp(op=ast.And(), values=[node.test, tick])
        ast.copy_location(new_test, node.test)
        ast.copy_location(tick, node.test)
        ast.fix_missing_locations(new_test)
        node.test = new_test
        return node


WHILE_SITES = []


class _Loader(importlib.machinery.SourceFileLoader):
    symbolic = False

    def source_to_code(self, data, path, *, _optimize=-1):
        tree = ast.parse(data, filename=path)
        rel = os.path.relpath(path, REPO)
        tr = _FuelTransformer(rel)
        tree = tr.visit(tree)
        WHILE_SITES.extend(tr.sites)
        ast.fix_missing_locations(tree)
        return compile(tree, path, 'exec', dont_inherit=True, optimize=_optimize)

    def get_code(self, fullname):
        # never read or write .pyc
        path = self.get_filename(fullname)
        data = self.get_data(path)
        return self.source_to_code(data, path)

    def exec_module(self, module):
        module.__dict__['_vf_tick'] = _vf_tick
        super().exec_module(module)
        if _Loader.symbolic:
            _rebind(module)


def _rebind(module):
    d = module.__dict__
    import netaddr as real_netaddr
    import time as real_time
    if d.get('netaddr') is real_netaddr:
        from vf.env.netaddr_model import MODEL
        d['netaddr'] = MODEL
    if d.get('time') is real_time:
        from vf.env.clock import CLOCK
        d['time'] = CLOCK


class _Finder(importlib.abc.MetaPathFinder):
    def find_spec(self, fullname, path, target=None):
        if fullname != 'yabgp' and not fullname.startswith('yabgp.'):
            return None
        if fullname.startswith('yabgp.tests'):
            return None
        parts = fullname.split('.')
        base = os.path.join(REPO, *parts)
        if os.path.isdir(base) and os.path.isfile(os.path.join(base, '__init__.py')):
            fn = os.path.join(base, '__init__.py')
            return importlib.util.spec_from_file_location(
                fullname, fn, loader=_Loader(fullname, fn), submodule_search_locations=[base])
        fn = base + '.py'
        if os.path.isfile(fn):
            return importlib.util.spec_from_file_location(fullname, fn, loader=_Loader(fullname, fn))
        return None


_installed = False


def install(symbolic=True):
    """symbolic=True: netaddr model + deterministic clock bound per module.
    symbolic=False (replay): real netaddr, real time; fuel still present but
    unlimited unless the replay sets it."""
    global _installed
    if _installed:
        return
    _installed = True
    _Loader.symbolic = symbolic
    if REPO not in sys.path:
        sys.path.insert(0, REPO)
    for k in [k for k in sys.modules if k == 'yabgp' or k.startswith('yabgp.')]:
        del sys.modules[k]
    from vf.env import twisted_stub
    twisted_stub.install()
    if 'radix' not in sys.modules:
        try:
            import radix  # noqa
        except ImportError:
            from vf.env import radix_stub
            sys.modules['radix'] = radix_stub
    if 'simplejson' not in sys.modules:
        try:
            import simplejson  # noqa
        except ImportError:
            import json
            sys.modules['simplejson'] = json
    sys.meta_path.insert(0, _Finder())
    logging.disable(logging.CRITICAL)
    # pbr version lookup of yabgp/__init__ may need metadata; tolerate
    os.environ.setdefault('PBR_VERSION', '0.0.0')
