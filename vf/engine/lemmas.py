"""Arithmetic identities the engine extension relies on, discharged by z3 on
every run for the constants actually met (QF_BV / QF_FP).  `unknown` or an
exception makes the lemma fail (never silently pass)."""
import time

import z3

from vf.engine.ch_ext import runs_of_set_bits

W = 72  # bit-vector width; x < 2**64, so no term overflows


def _enc_and(x, k):
    tot = z3.BitVecVal(0, W)
    for lo, w in runs_of_set_bits(k):
        tot = tot + z3.URem(z3.UDiv(x, z3.BitVecVal(2 ** lo, W)), z3.BitVecVal(2 ** w, W)) * z3.BitVecVal(2 ** lo, W)
    return tot


def _prove(neg, timeout_ms=20000):
    s = z3.Solver()
    s.set('timeout', timeout_ms)
    s.add(neg)
    return str(s.check())


def discharge(seen):
    t0 = time.time()
    x = z3.BitVec('x', W)
    dom = z3.ULT(x, z3.BitVecVal(2 ** 64, W))
    failed, n, assumed = [], 0, []
    for k in sorted(seen.get('and', ())):
        if k >= 2 ** 64:
            failed.append(('and', k, 'constant too wide'))
            continue
        n += 1
        r = _prove(z3.And(dom, _enc_and(x, k) != (x & z3.BitVecVal(k, W))))
        if r != 'unsat':
            failed.append(('and', k, r))
    for k in sorted(seen.get('or', ())):
        n += 1
        kv = z3.BitVecVal(k, W)
        r = _prove(z3.And(dom, (x + kv - _enc_and(x, k)) != (x | kv)))
        if r != 'unsat':
            failed.append(('or', k, r))
    for k in sorted(seen.get('xor', ())):
        n += 1
        kv = z3.BitVecVal(k, W)
        r = _prove(z3.And(dom, (x + kv - 2 * _enc_and(x, k)) != (x ^ kv)))
        if r != 'unsat':
            failed.append(('xor', k, r))
    for c in sorted(seen.get('div', ())):
        if c > 0 and c & (c - 1) == 0 and c < 2 ** 16:
            n += 1
            v = z3.BitVec('v', 32)
            fx = z3.fpToFP(z3.RNE(), v, z3.Float64())
            q = z3.fpDiv(z3.RNE(), fx, z3.FPVal(c, z3.Float64()))
            tr = z3.fpToSBV(z3.RTZ(), q, z3.BitVecSort(32))
            cl = z3.fpToSBV(z3.RTP(), z3.fpRoundToIntegral(z3.RTP(), q), z3.BitVecSort(32))
            exact = z3.UDiv(v, z3.BitVecVal(c, 32))
            ceil = z3.UDiv(v + (c - 1), z3.BitVecVal(c, 32))
            r = _prove(z3.And(z3.ULT(v, 2 ** 16), z3.Or(tr != exact, cl != ceil)), 60000)
            if r != 'unsat':
                failed.append(('fp_div_trunc', c, r))
        else:
            assumed.append('x / %d is modelled as the exact rational (IEEE rounding of the quotient assumed '
                           'irrelevant: it is only used as a timer delay)' % c)
    return {'ok': not failed, 'discharged': n, 'failed': failed, 'assumed': assumed,
            'solver_s': round(time.time() - t0, 2),
            'statements': ['(x & K) = sum over runs (lo,w) of set bits of K of ((x div 2^lo) mod 2^w)*2^lo, x in [0,2^64)',
                           '(x | K) = x + K - (x & K)', '(x ^ K) = x + K - 2(x & K)',
                           'fp.to_sbv(RTZ, x /RNE c) = x div c and ceil form, x in [0,65535], c a power of two']}
