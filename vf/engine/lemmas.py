"""Arithmetic identities the engine extension relies on, discharged by z3 on
every run for the constants actually met (QF_BV / QF_FP).  `unknown` or an
exception makes the lemma fail (never silently pass)."""
import time

import z3

from vf.engine.ch_ext import runs_of_set_bits

W = 72  # bit-vector width; x < 2**64, so no term overflows


def _enc_and(x, k):
    tot = z3.BitVecVal(0, W)
    for lo, w in runs_of_set_bits(k):
        tot = tot + z3.URem(z3.UDiv(x, z3.BitVecVal(2 ** lo, W)), z3.BitVecVal(2 ** w, W)) * z3.BitVecVal(2 ** lo, W)
    return tot


def _prove(neg, timeout_ms=20000):
    s = z3.Solver()
    s.set('timeout', timeout_ms)
    s.add(neg)
    return str(s.check())


def discharge(seen):
    t0 = time.time()
    x = z3.BitVec('x', W)
    dom = z3.ULT(x, z3.BitVecVal(2 ** 64, W))
    failed, n, assumed = [], 0, []
    for k in sorted(seen.get('and', ())):
        if k >= 2 ** 64:
            failed.append(('and', k, 'constant too wide'))
            continue
        n += 1
        r = _prove(z3.And(dom, _enc_and(x, k) != (x & z3.BitVecVal(k, W))))
        if r != 'unsat':
            failed.append(('and', k, r))
    for k in sorted(seen.get('or', ())):
        n += 1
        kv = z3.BitVecVal(k, W)
        r = _prove(z3.And(dom, (x + kv - _enc_and(x, k)) != (x | kv)))
        if r != 'unsat':
            failed.append(('or', k, r))
    for k in sorted(seen.get('xor', ())):
        n += 1
        kv = z3.BitVecVal(k, W)
        r = _prove(z3.And(dom, (x + kv - 2 * _enc_and(x, k)) != (x ^ kv)))
        if r != 'unsat':
            failed.append(('xor', k, r))
    for c in sorted(seen.get('div', ())):
        if c > 0 and c & (c - 1) == 0 and c < 2 ** 16:
            n += 1
            v = z3.BitVec('v', 32)
            fx = z3.fpToFP(z3.RNE(), v, z3.Float64())
            q = z3.fpDiv(z3.RNE(), fx, z3.FPVal(c, z3.Float64()))
            tr = z3.fpToSBV(z3.RTZ(), q, z3.BitVecSort(32))
            cl = z3.fpToSBV(z3.RTP(), z3.fpRoundToIntegral(z3.RTP(), q), z3.BitVecSort(32))
            exact = z3.UDiv(v, z3.BitVecVal(c, 32))
            ceil = z3.UDiv(v + (c - 1), z3.BitVecVal(c, 32))
            r = _prove(z3.And(z3.ULT(v, 2 ** 16), z3.Or(tr != exact, cl != ceil)), 60000)
            if r != 'unsat':
                failed.append(('fp_div_trunc', c, r))
        else:
            assumed.append('x / %d is modelled as the exact rational (IEEE rounding of the quotient assumed '
                           'irrelevant: it is only used as a timer delay)' % c)
    # digit-run abstraction (int(str(x)) = x ; str(x) == str(y) <=> x == y for equal digit counts).
    # Direct statement for n <= 5 digits; for n <= 20 the three facts the induction needs:
    #   L1_k: (x div 10^k) div 10 == x div 10^(k+1)      (so digit_k(x) = A_k mod 10 with A_{k+1} = A_k div 10)
    #   L2  : a == 10*(a div 10) + a mod 10, 0 <= a mod 10 < 10
    #   L3_n: positional representation with n digits in 0..9 is unique (linear)
    # Unrolling A_k = 10*A_{k+1} + digit_k from A_0 = x to A_n = 0 gives x = sum digit_k 10^k; L3 gives injectivity.
    xi, yi = z3.Int('xi'), z3.Int('yi')
    dig = lambda v, k: (v / (10 ** k)) % 10  # noqa: E731
    for nd in range(1, 6):
        n += 1
        lo, hi = (0 if nd == 1 else 10 ** (nd - 1)), 10 ** nd
        tot = sum(dig(xi, k) * (10 ** k) for k in range(nd))
        same = z3.And(*[dig(xi, k) == dig(yi, k) for k in range(nd)])
        r = _prove(z3.And(xi >= lo, xi < hi, yi >= lo, yi < hi, z3.Or(tot != xi, z3.And(same, xi != yi))))
        if r != 'unsat':
            failed.append(('digits-direct', nd, r))
    for k in range(1, 20):
        n += 1
        r = _prove(z3.And(xi >= 0, xi < 10 ** 20, (xi / (10 ** k)) / 10 != xi / (10 ** (k + 1))))
        if r != 'unsat':
            failed.append(('digits-L1', k, r))
    n += 1
    r = _prove(z3.And(xi >= 0, z3.Or(xi != 10 * (xi / 10) + xi % 10, xi % 10 < 0, xi % 10 >= 10)))
    if r != 'unsat':
        failed.append(('digits-L2', 0, r))
    for nd in (1, 2, 3, 5, 10, 20):
        n += 1
        ds = [z3.Int('d%d' % k) for k in range(nd)]
        es = [z3.Int('e%d' % k) for k in range(nd)]
        rngs = [z3.And(v >= 0, v <= 9) for v in ds + es]
        r = _prove(z3.And(*(rngs + [sum(d * 10 ** k for k, d in enumerate(ds)) == sum(e * 10 ** k for k, e in enumerate(es)),
                                    z3.Or(*[d != e for d, e in zip(ds, es)])])))
        if r != 'unsat':
            failed.append(('digits-L3', nd, r))
    return {'ok': not failed, 'discharged': n, 'failed': failed, 'assumed': assumed,
            'solver_s': round(time.time() - t0, 2),
            'statements': ['(x & K) = sum over runs (lo,w) of set bits of K of ((x div 2^lo) mod 2^w)*2^lo, x in [0,2^64)',
                           '(x | K) = x + K - (x & K)', '(x ^ K) = x + K - 2(x & K)',
                           'fp.to_sbv(RTZ, x /RNE c) = x div c and ceil form, x in [0,65535], c a power of two',
                           'decimal digits: direct (n<=5) sum_k digit_k(x)*10^k = x and equal digits => x = y; induction facts L1_k, L2, L3_n for n<=20 (int(str(x)) = x; str(x)=str(y) iff x=y at equal digit count)']}
