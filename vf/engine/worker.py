"""One obligation, one OS process.  usage: python -m vf.engine.worker <spec.json|->
Prints one JSON object (the result) as the last line of stdout."""
import importlib
import json
import os
import resource
import sys
import time


def main():
    spec = json.loads(sys.stdin.read() if sys.argv[1] == '-' else open(sys.argv[1]).read())
    t0 = time.time()
    try:
        resource.setrlimit(resource.RLIMIT_AS, (int(spec.get('mem_gb', 6) * 2 ** 30),) * 2)
    except Exception:
        pass
    sys.setrecursionlimit(10000)
    out = {'id': spec['id'], 'status': 'ERROR', 'detail': ''}
    try:
        from vf import loader
        loader.install(symbolic=True)
        import crosshair.core_and_libs  # noqa: F401  (registers library models)
        from vf.engine import ch_ext
        if not spec.get('no_ext'):
            ch_ext.install()
        import z3
        qstat = {'n': 0, 's': 0.0}
        _check = z3.Solver.check

        def counted(self, *a):
            t = time.time()
            try:
                return _check(self, *a)
            finally:
                qstat['n'] += 1
                qstat['s'] += time.time() - t
        z3.Solver.check = counted

        from vf.engine import driver
        mod = importlib.import_module(spec['module'])
        mod.P = spec.get('params', {})
        if hasattr(mod, 'setup'):
            mod.setup(mod.P)
        fn = getattr(mod, spec['fn'])
        region = None
        if spec.get('regions'):
            src = ' or '.join('(%s)' % r for r in spec['regions'])
            code = compile(src, '<known-finding region>', 'eval')
            g = {'P': mod.P}

            def region(**kw):
                return eval(code, g, kw)
        driver.ACTIVE_KNOWN.clear()
        driver.ACTIVE_KNOWN.update(spec.get('known_tags') or [])
        deadline = t0 + spec.get('cap', 60)
        from vf.engine import isolation
        isolation.snapshot()
        res = driver.explore(fn, deadline, region=region,
                             per_path_timeout=spec.get('per_path_timeout'), before_path=isolation.restore)
        out.update(res)
        need = spec.get('covers') or []
        if out['status'] == 'CONFIRMED':
            missing = [c for c in need if not out['covers'].get(c)]
            if missing:
                out['status'] = 'VACUOUS'
                out['detail'] = 'required cover labels never reached: %s' % missing
        out['solver_queries'] = qstat['n']
        out['solver_s'] = round(qstat['s'], 3)
        out['ext_seen'] = {k: sorted(v) for k, v in ch_ext.SEEN.items()}
        out['ext_stats'] = dict(ch_ext.STATS)
        from vf.engine import rope as _rope
        out['ext_stats'].update({'rope_' + k: v for k, v in _rope.STATS.items()})
        out['while_sites'] = len(loader.WHILE_SITES)
        out['fuel_sites_hit'] = sorted(loader.FUEL.sites_seen)
    except BaseException as e:  # noqa
        import traceback
        out['status'] = 'ERROR'
        out['detail'] = '%s: %s' % (type(e).__name__, e)
        out['trace'] = traceback.format_exc()[-3000:]
    out['wall_s'] = round(time.time() - t0, 3)
    sys.stdout.write('\n' + json.dumps(out) + '\n')
    sys.stdout.flush()
    os._exit(0)


if __name__ == '__main__':
    main()
