"""Lazy text ("rope") for the decimal rendering of symbolic integers.

CrossHair represents a string as a list of code points of *concrete length*, so
`str(x)` of a symbolic int forks on the digit count (3 ways per octet, 10 ways per
32-bit field).  yabgp builds and takes apart such text all the time
(`"%s.%s.%s.%s" % octets`, `'%s:%s' % (asn, an)`, `prefix.split('/')`, `int(...)`).
A Rope keeps the text as a sequence of parts

    str literal | Int(x)  (the canonical decimal text of the non-negative symbolic int x)
                | Sym(s)  (an already materialised symbolic string)

and answers the operations yabgp performs *structurally*, without choosing digit
counts:

  rope + str, str + rope, '%s' formatting      -> longer rope
  rope.split(sep), sep in rope  (sep has no digit) -> decided on the literals
  int(rope) for a rope that is exactly Int(x)  -> x
  rope == rope / rope == 'concrete'            -> conjunction of x_i == y_i when both sides have
                                                  the same shape and every Int part is delimited
                                                  by non-digit literals (unique readability of
                                                  decimal text); otherwise materialise
  upper()/lower()                              -> on the literals only

Anything else (len, indexing, iteration, hashing, ...) *materialises* the rope into
CrossHair's own representation (with the usual digit-count forks) and delegates, so
an unexpected use costs paths, never soundness.

Identities relied upon (lemmas L1-L3 in lemmas.py): canonical decimal text is
injective on non-negative ints, contains only digits, has no leading zero.
"""
import z3
from crosshair.core import realize
from crosshair.libimpl import builtinslib as bl
from crosshair.libimpl.builtinslib import AnySymbolicStr, SymbolicInt
from crosshair.tracers import NoTracing
from crosshair.util import CrossHairValue

STATS = {'ropes': 0, 'materialised': 0, 'struct_eq': 0, 'struct_split': 0, 'int_of_rope': 0}

MATERIALISE_INT = None   # set by ch_ext: function SymbolicInt -> LazyIntSymbolicStr (forks on digit count)


class Int(object):
    __slots__ = ('x',)

    def __init__(self, x):
        self.x = x


class Sym(object):
    __slots__ = ('s',)

    def __init__(self, s):
        self.s = s


class Lazy(Sym):
    """text produced on demand by fn() (e.g. RFC 5952 text of a symbolic IPv6 address, which has to
    realise the address): never evaluated unless the rope is materialised / realised"""
    __slots__ = ('fn', '_v')

    def __init__(self, fn):
        self.fn = fn
        self._v = None

    @property
    def s(self):
        if self._v is None:
            self._v = self.fn()
        return self._v


def _has_digit(s):
    for ch in s:
        if '0' <= ch <= '9':
            return True
    return False


def _norm(parts):
    out = []
    for p in parts:
        if isinstance(p, str):
            if not p:
                continue
            if out and isinstance(out[-1], str):
                out[-1] = out[-1] + p
                continue
        out.append(p)
    return out


def parts_of(o):
    """parts of a str-like operand, or None (NoTracing)"""
    if isinstance(o, Rope):
        return list(o._parts)
    if isinstance(o, str):
        return [o] if o else []
    if isinstance(o, AnySymbolicStr):
        return [Sym(o)]
    return None


def _delimited(parts):
    """every Int part is surrounded by non-digit literal characters (or the ends), no Sym parts"""
    n = len(parts)
    for i, p in enumerate(parts):
        if isinstance(p, Sym):
            return False
        if isinstance(p, Int):
            if i > 0:
                q = parts[i - 1]
                if not isinstance(q, str) or ('0' <= q[-1] <= '9'):
                    return False
            if i + 1 < n:
                q = parts[i + 1]
                if not isinstance(q, str) or ('0' <= q[0] <= '9'):
                    return False
    return True


class Rope(AnySymbolicStr, CrossHairValue):
    # AnySymbolicStr so that CrossHair's own string plumbing (BUILD_STRING, concatenation with its
    # symbolic strings, isinstance(x, str)) accepts a rope; `data` is what AbcString's generic
    # methods work on: the materialised text.
    data = property(lambda s: s._materialise())

    def __init__(self, parts):
        self._parts = _norm(parts)
        self._mat = None
        STATS['ropes'] += 1

    # ---- CrossHair protocol ---------------------------------------------------------------
    def __ch_pytype__(self):
        return str

    def __ch_realize__(self):
        # no digit-count forks needed to realise: pick a value for every Int part
        with NoTracing():
            out = []
            for p in self._parts:
                if isinstance(p, str):
                    out.append(p)
                elif isinstance(p, Int):
                    out.append(str(int(realize(p.x))))
                else:
                    out.append(str(realize(p.s)))
            return ''.join(out)

    def __deepcopy__(self, memo):
        return self

    def __copy__(self):
        return self

    # ---- materialisation (forks on digit counts) ----------------------------------------------
    def _materialise(self):
        if self._mat is None:
            STATS['materialised'] += 1
            out = ''
            for p in self._parts:
                if isinstance(p, str):
                    out = out + p
                elif isinstance(p, Int):
                    out = out + MATERIALISE_INT(p.x)
                else:
                    out = out + p.s
            self._mat = out
        return self._mat

    # ---- structural operations --------------------------------------------------------------------
    def __str__(self):
        return self

    def __repr__(self):
        # repr() is mostly reached from C code (repr of a dict / list that holds the rope), which insists on a real str
        return repr(self.__ch_realize__())

    def __add__(self, o):
        with NoTracing():
            po = parts_of(o)
            if po is not None:
                return Rope(self._parts + po)
        return NotImplemented

    def __radd__(self, o):
        with NoTracing():
            po = parts_of(o)
            if po is not None:
                return Rope(po + self._parts)
        return NotImplemented

    def __bool__(self):
        with NoTracing():
            for p in self._parts:
                if isinstance(p, (str, Int)):
                    return True
        return len(self._materialise()) > 0

    def _single_int(self):
        if len(self._parts) == 1 and isinstance(self._parts[0], Int):
            return self._parts[0].x
        return None

    def upper(self):
        with NoTracing():
            if not any(isinstance(p, Sym) for p in self._parts):
                return Rope([p.upper() if isinstance(p, str) else p for p in self._parts])
        return self._materialise().upper()

    def lower(self):
        with NoTracing():
            if not any(isinstance(p, Sym) for p in self._parts):
                return Rope([p.lower() if isinstance(p, str) else p for p in self._parts])
        return self._materialise().lower()

    def _strip(self, left, right, chars):
        with NoTracing():
            if chars is None and self._parts and not any(isinstance(p, Sym) for p in self._parts):
                parts = list(self._parts)
                if left and isinstance(parts[0], str):
                    parts[0] = parts[0].lstrip()
                if right and isinstance(parts[-1], str):
                    parts[-1] = parts[-1].rstrip()
                # decimal text has no white space, so only literal ends can be stripped; an end that became
                # empty exposes the next part, which is an Int (delimited) or needs another look
                ok = True
                norm = _norm(parts)
                if norm:
                    if left and isinstance(norm[0], str) and norm[0][:1].isspace():
                        ok = False
                    if right and isinstance(norm[-1], str) and norm[-1][-1:].isspace():
                        ok = False
                if ok:
                    if all(isinstance(q, str) for q in norm):
                        return ''.join(norm)
                    return Rope(norm)
        m = self._materialise()
        if left and right:
            return m.strip(chars)
        return m.lstrip(chars) if left else m.rstrip(chars)

    def strip(self, chars=None):
        return self._strip(True, True, chars)

    def lstrip(self, chars=None):
        return self._strip(True, False, chars)

    def rstrip(self, chars=None):
        return self._strip(False, True, chars)

    def __contains__(self, needle):
        with NoTracing():
            ok = type(needle) is str and needle != '' and not _has_digit(needle) and \
                not any(isinstance(p, Sym) for p in self._parts)
            if ok:
                # a digit-free needle cannot overlap the text of an Int part
                for p in self._parts:
                    if isinstance(p, str) and needle in p:
                        return True
                return False
        return needle in self._materialise()

    def split(self, sep=None, maxsplit=-1):
        with NoTracing():
            ok = type(sep) is str and sep != '' and not _has_digit(sep) and type(maxsplit) is int and \
                not any(isinstance(p, Sym) for p in self._parts)
            if ok:
                STATS['struct_split'] += 1
                pieces, cur = [], []
                left = maxsplit
                for p in self._parts:
                    if isinstance(p, str):
                        rest = p
                        while True:
                            k = rest.find(sep) if left != 0 else -1
                            if k < 0:
                                break
                            cur.append(rest[:k])
                            pieces.append(cur)
                            cur = []
                            rest = rest[k + len(sep):]
                            if left > 0:
                                left -= 1
                        cur.append(rest)
                    else:
                        cur.append(p)
                pieces.append(cur)
                out = []
                for pc in pieces:
                    pc = _norm(pc)
                    if all(isinstance(q, str) for q in pc):
                        out.append(''.join(pc))
                    else:
                        out.append(Rope(pc))
                return out
        return self._materialise().split(sep, maxsplit)

    def startswith(self, prefix, *a):
        with NoTracing():
            if type(prefix) is str and not a and self._parts and isinstance(self._parts[0], str) and \
                    len(self._parts[0]) >= len(prefix):
                return self._parts[0].startswith(prefix)
        return self._materialise().startswith(prefix, *a)

    def _eq_struct(self, other):
        """SymbolicBool / bool when decidable structurally, else None (NoTracing)"""
        a = self._parts
        if isinstance(other, Rope):
            b = other._parts
            if len(a) != len(b) or not _delimited(a) or not _delimited(b):
                return None
            conds = []
            for p, q in zip(a, b):
                if isinstance(p, str) and isinstance(q, str):
                    if p != q:
                        return self._eq_struct_fallback(other)
                elif isinstance(p, Int) and isinstance(q, Int):
                    if p.x is not q.x:
                        conds.append(_z(p.x) == _z(q.x))
                else:
                    return self._eq_struct_fallback(other)
            return _and(conds)
        if type(other) is str:
            if not _delimited(a):
                return None
            conds, pos = [], 0
            n = len(other)
            for p in a:
                if isinstance(p, str):
                    if other[pos:pos + len(p)] != p:
                        return False
                    pos += len(p)
                else:
                    j = pos
                    while j < n and '0' <= other[j] <= '9':
                        j += 1
                    run = other[pos:j]
                    if run == '' or (len(run) > 1 and run[0] == '0'):
                        return False
                    conds.append(_z(p.x) == z3.IntVal(int(run)))
                    pos = j
            if pos != n:
                return False
            return _and(conds)
        return None

    def _eq_struct_fallback(self, other):
        # same number of parts but a literal / kind mismatch: with all Int parts delimited by non-digits the
        # two texts have different literal skeletons unless a literal of one side is made of digits - be safe
        return None

    def __eq__(self, other):
        with NoTracing():
            r = self._eq_struct(other)
            if r is not None:
                STATS['struct_eq'] += 1
                return r
            if not isinstance(other, (str, Rope, AnySymbolicStr)):
                return NotImplemented
        o = other._materialise() if isinstance(other, Rope) else other
        return self._materialise() == o

    def __ne__(self, other):
        r = self.__eq__(other)
        if r is NotImplemented:
            return r
        return not r

    def __hash__(self):
        return hash(self.__ch_realize__())

    # ---- everything else: materialise ------------------------------------------------------------------
    def __len__(self):
        return len(self._materialise())

    def __iter__(self):
        return iter(self._materialise())

    def __getitem__(self, i):
        return self._materialise()[i]

    def __mod__(self, o):
        return self._materialise() % o

    def __mul__(self, o):
        return self._materialise() * o

    def __lt__(self, o):
        return self._materialise() < (o._materialise() if isinstance(o, Rope) else o)

    def __le__(self, o):
        return self._materialise() <= (o._materialise() if isinstance(o, Rope) else o)

    def __gt__(self, o):
        return self._materialise() > (o._materialise() if isinstance(o, Rope) else o)

    def __ge__(self, o):
        return self._materialise() >= (o._materialise() if isinstance(o, Rope) else o)

    def __format__(self, spec):
        return format(self._materialise(), spec)

    def __getattr__(self, name):
        if name.startswith('__') or name in ('_parts', '_mat'):
            raise AttributeError(name)
        return getattr(self._materialise(), name)


def _z(x):
    if isinstance(x, SymbolicInt):
        return x.var
    return z3.IntVal(int(x))


def _and(conds):
    if not conds:
        return True
    return bl.SymbolicBool(z3.And(*conds) if len(conds) > 1 else conds[0])


def rope_of_int(x):
    return Rope([Int(x)])
