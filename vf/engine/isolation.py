"""Every explored path starts from the same process state as a fresh interpreter would: the data attributes of the
classes of the code under test (yabgp.*) are snapshotted once after import and restored before each path.

Without this, a change that makes per-instance or per-call data live on the class (a counter dictionary moved to
the class body, a flag OR-ed into `cls.FLAG`) leaks from one explored path into the next inside a worker: the first
"counterexample" then depends on earlier paths and does not reproduce in the fresh replay process.  Within one path
class state is shared exactly as in the real process, so a history that needs two instances / two calls is still
found - and reproduces."""
import copy
import sys

_IMMUTABLE = (int, float, str, bytes, bool, type(None), tuple, frozenset)
_MUTABLE = (dict, list, set, bytearray)
_SNAP = {}


def _classes():
    seen = set()
    for name, mod in list(sys.modules.items()):
        if mod is None or not (name == 'yabgp' or name.startswith('yabgp.')):
            continue
        for obj in list(vars(mod).values()):
            if isinstance(obj, type) and getattr(obj, '__module__', '').startswith('yabgp') and obj not in seen:
                seen.add(obj)
                yield obj


def snapshot():
    """(re)take the snapshot for classes not seen yet (modules are imported lazily)"""
    for cls in _classes():
        if cls in _SNAP:
            continue
        data = {}
        for k, v in list(vars(cls).items()):
            if k.startswith('__'):
                continue
            if isinstance(v, _MUTABLE):
                try:
                    data[k] = (True, copy.deepcopy(v))
                except Exception:
                    pass
            elif isinstance(v, _IMMUTABLE):
                data[k] = (False, v)
        _SNAP[cls] = data


def restore():
    n = 0
    for cls, data in _SNAP.items():
        d = vars(cls)
        for k, (mutable, v) in data.items():
            cur = d.get(k, _SNAP)
            try:
                if mutable:
                    changed = cur is _SNAP or type(cur) is not type(v) or cur != v
                else:
                    changed = cur is not v and (cur is _SNAP or type(cur) is not type(v) or cur != v)
            except BaseException:
                changed = True          # e.g. a symbolic value of the previous path left behind
            if changed:
                setattr(cls, k, copy.deepcopy(v) if mutable else v)
                n += 1
    snapshot()
    return n
