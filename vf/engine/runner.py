"""Pool runner: one OS process per obligation, wall-clock caps enforced with
SIGKILL, replay of every counterexample on the real code before it is
reported, known-finding regions, lemma discharge, evidence file."""
import fnmatch
import importlib
import json
import os
import signal
import subprocess
import sys
import tempfile
import time

ROOT = os.path.dirname(os.path.dirname(os.path.dirname(os.path.abspath(__file__))))
PY = sys.executable
# VF_EVIDENCE_DIR: where evidence and replay files go (the seeded-change sweep runs the checks against changed
# copies of the repository and must not overwrite the evidence of the real tree)
EVID = os.environ.get('VF_EVIDENCE_DIR') or os.path.join(ROOT, 'evidence')
REPLAYS = os.path.join(EVID, 'replays')
KNOWN = os.path.join(ROOT, 'known_findings.json')

EXIT_OK, EXIT_VIOLATION, EXIT_HARNESS = 0, 1, 3


def _env():
    e = dict(os.environ)
    e['PYTHONPATH'] = ROOT + os.pathsep + e.get('PYTHONPATH', '')
    e['PYTHONDONTWRITEBYTECODE'] = '1'
    e['PYTHONHASHSEED'] = '0'
    return e


class Job(object):
    def __init__(self, kind, spec, cap):
        self.kind, self.spec, self.cap = kind, spec, cap
        self.proc = None
        self.t0 = None
        self.out = None
        self.result = None

    def start(self):
        self.tmp = tempfile.NamedTemporaryFile('w', suffix='.json', delete=False, dir=self._tmpdir())
        json.dump(self.spec, self.tmp)
        self.tmp.close()
        self.outf = open(self.tmp.name + '.out', 'w+')
        if self.kind == 'explore':
            cmd = [PY, '-m', 'vf.engine.worker', self.tmp.name]
        else:
            cmd = [PY, '-m', 'vf.replay', self.tmp.name] + (['--trace'] if self.kind == 'witness' else [])
        self.t0 = time.time()
        self.proc = subprocess.Popen(cmd, stdout=self.outf, stderr=subprocess.STDOUT, cwd=ROOT,
                                     env=_env(), start_new_session=True)

    @staticmethod
    def _tmpdir():
        d = os.path.join(ROOT, '.work')
        os.makedirs(d, exist_ok=True)
        return d

    def poll(self):
        """returns True when finished"""
        rc = self.proc.poll()
        hard = self.cap + (15 if self.kind == 'explore' else 5)
        if rc is None:
            if time.time() - self.t0 > hard:
                try:
                    os.killpg(self.proc.pid, signal.SIGKILL)
                except Exception:
                    pass
                self.proc.wait()
                self._finish(killed=True)
                return True
            return False
        self._finish(killed=False)
        return True

    def _finish(self, killed):
        self.outf.seek(0)
        txt = self.outf.read()
        self.outf.close()
        res = None
        for line in reversed(txt.strip().splitlines()):
            line = line.strip()
            if line.startswith('{'):
                try:
                    res = json.loads(line)
                    break
                except Exception:
                    continue
        if res is None:
            if self.kind == 'explore':
                res = {'id': self.spec.get('id'), 'status': 'UNKNOWN' if killed else 'ERROR',
                       'detail': ('killed at wall cap %ss' % self.cap) if killed else
                       ('worker died rc=%s: %s' % (self.proc.returncode, txt[-400:]))}
            else:
                res = {'id': self.spec.get('id'), 'holds': False if not killed else False,
                       'raised': 'replay killed at cap (non-termination)' if killed else
                       'replay died rc=%s: %s' % (self.proc.returncode, txt[-300:]),
                       'killed': killed}
        res['rc'] = self.proc.returncode
        res['job_wall_s'] = round(time.time() - self.t0, 2)
        self.result = res
        for f in (self.tmp.name, self.tmp.name + '.out'):
            try:
                os.unlink(f)
            except OSError:
                pass


def run_pool(jobs, nproc, deadline=None, on_done=None):
    """jobs: list of Job, run in order.  Returns (finished, not_started)."""
    pending = list(jobs)
    running, done, skipped = [], [], []
    while pending or running:
        while pending and len(running) < nproc:
            if deadline is not None and time.time() > deadline:
                skipped.extend(pending)
                pending = []
                break
            j = pending.pop(0)
            j.start()
            running.append(j)
        still = []
        for j in running:
            if j.poll():
                done.append(j)
                if on_done:
                    on_done(j)
            else:
                still.append(j)
        running = still
        if running:
            time.sleep(0.05)
    return done, skipped


def load_known(prop):
    if not os.path.exists(KNOWN):
        return [], []
    data = json.load(open(KNOWN))
    opens = [e for e in data.get('findings', []) if e.get('property') == prop and e.get('status') == 'open']
    fixed = [e for e in data.get('findings', []) if e.get('property') == prop and e.get('status') == 'fixed']
    return opens, fixed


def replay_spec(ob, args):
    return {'id': ob['id'], 'module': ob['module'], 'fn': ob['fn'], 'params': ob.get('params', {}),
            'args': args, 'replay_cpu_s': ob.get('replay_cpu_s', 20)}


def run_property(prop, tier='quick', seed=0, budget=None, only=None, jobs=None, verbose=False):
    t_start = time.time()
    os.makedirs(REPLAYS, exist_ok=True)
    for _f in os.listdir(REPLAYS):
        if _f.startswith(prop + '-'):
            os.unlink(os.path.join(REPLAYS, _f))
    nproc = jobs or int(os.environ.get('VF_JOBS', '0')) or (os.cpu_count() or 4)
    from vf import loader
    loader.install(symbolic=False)
    mod = importlib.import_module('vf.props.' + prop)
    obs = mod.obligations(tier, seed)
    _seen = set()
    obs = [o for o in obs if not (o['id'] in _seen or _seen.add(o['id']))]
    if only:
        obs = [o for o in obs if only in o['id'] or fnmatch.fnmatch(o['id'], only)]
    for o in obs:
        o.setdefault('module', 'vf.props.' + prop)
        o.setdefault('params', {})
        o.setdefault('cap', 60 if tier == 'quick' else 240)
    if budget is None:
        budget = getattr(mod, 'BUDGET', {}).get(tier, 330 if tier == 'quick' else 1200)
    deadline = (t_start + budget) if budget else None
    lines = []

    def say(s):
        print(s)
        sys.stdout.flush()
        lines.append(s)

    # ---- known findings: replay each witness first ------------------------------
    opens, fixed = load_known(prop)
    known_live, known_stale = [], []
    wjobs = []
    for e in opens:
        spec = {'id': 'known/' + e['id'], 'module': e.get('module', 'vf.props.' + prop), 'fn': e['fn'],
                'params': e.get('params', {}), 'args': e['witness'], 'replay_cpu_s': e.get('replay_cpu_s', 10)}
        j = Job('replay', spec, cap=e.get('replay_cpu_s', 10) + 20)
        j.entry = e
        wjobs.append(j)
    done, _ = run_pool(wjobs, nproc)
    for j in done:
        e = j.entry
        if j.result.get('holds') is False:
            known_live.append(e)
            say('KNOWN-FINDING: property=%s %s: %s' % (prop, e['id'], e['what']))
        else:
            known_stale.append(e)
            say('NOTE stale known finding (witness no longer fails; region is checked in full): %s' % e['id'])
    for o in obs:
        regs, tags = [], []
        for e in known_live:
            if e['fn'] == o['fn'] and e.get('module', 'vf.props.' + prop) == o['module']:
                if e.get('region'):
                    regs.append(e['region'])
                if e.get('tag'):
                    tags.append(e['tag'])
        if regs:
            o['regions'] = regs
        if tags:
            o['known_tags'] = tags

    # ---- explore ------------------------------------------------------------------
    results = {}
    order = []

    def on_done(j):
        r = j.result
        results[j.spec['id']] = r
        if verbose:
            say('  [%s] %-60s paths=%s %.1fs %s' % (r.get('status'), j.spec['id'], r.get('paths'),
                                                   r.get('job_wall_s', 0), (r.get('detail') or '')[:100]))
    ejobs = [Job('explore', o, o['cap']) for o in obs]
    done, skipped = run_pool(ejobs, nproc, deadline, on_done)
    # retry UNKNOWN once with doubled cap if budget remains
    retry = []
    for j in done:
        if j.result.get('status') == 'UNKNOWN' and deadline and time.time() + 2 * j.cap < deadline:
            spec = dict(j.spec)
            spec['cap'] = 2 * j.cap
            retry.append(Job('explore', spec, spec['cap']))
    if retry:
        run_pool(retry, nproc, deadline, on_done)
    not_run = [j.spec['id'] for j in skipped]

    # ---- triage -------------------------------------------------------------------
    by_id = {o['id']: o for o in obs}
    violations, harness_errors, inconclusive, confirmed, known_covered = [], [], [], [], []
    rjobs, wit_jobs = [], []
    for oid, r in results.items():
        st = r.get('status')
        ob = by_id[oid]
        if st == 'REFUTED':
            j = Job('replay', replay_spec(ob, r['cex']), cap=ob.get('replay_cpu_s', 20) + 20)
            j.ob, j.r = ob, r
            rjobs.append(j)
        elif st == 'CONFIRMED':
            confirmed.append(oid)
            if r.get('example') is not None:
                j = Job('witness', replay_spec(ob, r['example']), cap=60)
                j.ob, j.r = ob, r
                wit_jobs.append(j)
        elif st == 'VACUOUS' and (ob.get('regions') or ob.get('known_tags')):
            # the whole obligation lies inside a listed, still-reproducing known-finding region
            known_covered.append(oid)
        elif st in ('ERROR', 'VACUOUS'):
            harness_errors.append((oid, st + ': ' + (r.get('detail') or '') + ' ' + (r.get('trace') or '')[-600:]))
        else:
            inconclusive.append(oid)
    run_pool(rjobs + wit_jobs, nproc)
    nviol = 0
    for j in rjobs:
        if j.result.get('holds') is False:
            nviol += 1
            path = os.path.join(REPLAYS, '%s-%d.json' % (prop, nviol))
            rec = dict(j.spec)
            rec['property'] = prop
            rec['symbolic_detail'] = j.r.get('detail')
            rec['replay_outcome'] = {k: j.result.get(k) for k in ('returned', 'raised', 'trace', 'killed')}
            json.dump(rec, open(path, 'w'), indent=1)
            violations.append((j.ob['id'], path, j.r.get('detail'), j.spec['args']))
        else:
            harness_errors.append((j.ob['id'], 'counterexample %s (%s) did NOT reproduce on the real code: %s'
                                   % (json.dumps(j.spec['args']), j.r.get('detail'), json.dumps(j.result)[:300])))
    functions = set()
    witness_ok = 0
    for j in wit_jobs:
        if j.result.get('holds') is False:
            harness_errors.append((j.ob['id'], 'CONFIRMED symbolically but the witness %s fails concretely: %s'
                                   % (json.dumps(j.spec['args']), json.dumps(j.result)[:400])))
        else:
            witness_ok += 1
            functions.update(j.result.get('functions') or [])

    # ---- lemmas for the engine extension ------------------------------------------
    seen = {'and': set(), 'or': set(), 'xor': set(), 'div': set()}
    for r in results.values():
        for k, v in (r.get('ext_seen') or {}).items():
            seen[k].update(v)
    from vf.engine import lemmas
    lem = lemmas.discharge(seen)
    if not lem['ok']:
        harness_errors.append(('lemmas', 'engine-extension lemma failed: %s' % lem['failed']))

    # ---- report ---------------------------------------------------------------------
    for oid in sorted(inconclusive):
        r = results[oid]
        say('INCONCLUSIVE %s %s (paths=%s)' % (oid, (r.get('detail') or '')[:160], r.get('paths')))
    for oid in not_run:
        say('NOT-RUN %s (wall budget)' % oid)
    for oid, msg in harness_errors:
        say('HARNESS-ERROR %s %s' % (oid, msg))
    for oid, path, detail, args in violations:
        say('VIOLATION property=%s replay=%s' % (prop, path))
        say('  obligation=%s %s args=%s' % (oid, detail, json.dumps(args)))
    wall = time.time() - t_start
    discharged = len(confirmed)
    total = len(obs) - len(known_covered)
    paths = sum((r.get('paths') or 0) for r in results.values())
    samples = []
    for oid in (confirmed[:2] + [v[0] for v in violations[:1]] + inconclusive[:1]):
        r, ob = results[oid], by_id[oid]
        samples.append({'obligation': oid, 'function': ob['module'] + '.' + ob['fn'], 'params': ob.get('params'),
                        'verdict': r.get('status'), 'paths': r.get('paths'), 'solver_queries': r.get('solver_queries'),
                        'example_model': r.get('example') or r.get('cex'), 'assumed_away': (ob.get('regions') or []) + (ob.get('known_tags') or [])})
    evidence = {
        'property_id': prop, 'tier': tier, 'seed': int(seed), 'level': 'other',
        'coverage': {
            'explanation': 'Bounded symbolic verification: each obligation is a harness over the real yabgp source '
                           'executed by CrossHair 0.0.110 with symbolic arguments; z3 decides every branch; an '
                           'obligation is discharged only when the path tree is exhausted and every path satisfied '
                           'the assertion (and at least one path completed). ' + getattr(mod, 'EXPLANATION', ''),
            'obligations': total, 'discharged': discharged, 'inconclusive': len(inconclusive),
            'not_run': len(not_run), 'refuted_replayed': len(violations),
            'inside_known_finding_region': len(known_covered), 'inside_known_finding_region_ids': sorted(known_covered)[:60],
            'known_findings_live': [e['id'] for e in known_live],
            'known_findings_stale': [e['id'] for e in known_stale],
            'paths': paths, 'evaluations': paths,
            'distinct_nontrivial': discharged,
            'rule': 'one obligation = one concrete shape with symbolic values; non-trivial = discharged with >=1 '
                    'completed feasible path reaching the assertion (vacuity guard) and its model replayed concretely',
            'witnesses_replayed_on_real_code': witness_ok,
            'solver_queries': sum((r.get('solver_queries') or 0) for r in results.values()),
            'solver_s': round(sum((r.get('solver_s') or 0) for r in results.values()), 1),
            'functions': sorted(functions)[:400],
            'bounds': (str(getattr(mod, 'BOUNDS', '')) + ' | ' + getattr(mod, 'LEVEL_ADDED', '')).strip(' |'),
            'lemmas': lem,
            'samples': samples or [{'note': 'no obligation concluded'}],
            'inconclusive_ids': sorted(inconclusive)[:50], 'not_run_ids': not_run[:50],
            'exhaustive': False,
            'checker_cmd': './check %s --tier %s' % (prop, tier),
            'trusted_base': ['CPython 3.12', 'crosshair-tool 0.0.110', 'z3 5.1.0', 'vf/engine/ch_ext.py modulo lemmas',
                             'vf/env stubs', 'vf/ref oracles'],
        },
        'assumptions': list(getattr(mod, 'ASSUMPTIONS', [])) + COMMON_ASSUMPTIONS,
        'wall_s': round(wall, 1),
        'violations': len(violations),
    }
    try:
        os.makedirs(os.path.join(ROOT, '.work'), exist_ok=True)
        json.dump({k: {kk: r.get(kk) for kk in ('status', 'paths', 'job_wall_s', 'detail', 'solver_s', 'cex')} for k, r in results.items()},
                  open(os.path.join(ROOT, '.work', prop + '.results.json'), 'w'), indent=0)
    except Exception:
        pass
    os.makedirs(EVID, exist_ok=True)
    json.dump(evidence, open(os.path.join(EVID, prop + '.json'), 'w'), indent=1)
    say('SUMMARY property=%s tier=%s obligations=%d discharged=%d inconclusive=%d not_run=%d violations=%d '
        'known=%d harness_errors=%d paths=%d wall=%.0fs' % (prop, tier, total, discharged, len(inconclusive),
                                                           len(not_run), len(violations), len(known_live),
                                                           len(harness_errors), paths, wall))
    if violations:
        return EXIT_VIOLATION
    if harness_errors or discharged == 0:
        return EXIT_HARNESS
    return EXIT_OK


COMMON_ASSUMPTIONS = [
    'bounded: holds for every value of the symbolic arguments within the stated ranges, for the enumerated shapes only',
    'CrossHair library models (struct, bytes, str, int) and path bookkeeping are trusted; the engine extension '
    'vf/engine/ch_ext.py is trusted modulo the z3 lemmas discharged in this run',
    'environment stubs under vf/env (twisted, radix, simplejson, netaddr model for symbolic IPv4 values, '
    'deterministic clock) implement the contracts stated in DESIGN.md section 3',
    'UNKNOWN obligations are inconclusive and are not counted as discharged',
]
