"""Engine extension for CrossHair 0.0.110 (DESIGN 2.3).

CrossHair *realises* (picks one concrete value and continues concretely) on a
handful of idioms that occur all over yabgp's codecs.  This module keeps them
symbolic through CrossHair's public registration points:

* operator handlers (``setup_binop`` - later registrations win, so this module
  must be imported after ``crosshair.core_and_libs``)
* a second patch layer above CrossHair's own (``PatchingModule.add``), pushed
  inside ``Patched.__enter__``.

Nothing here rewrites yabgp source.  Every arithmetic identity used is listed
in ``vf/engine/lemmas.py`` and discharged by z3 on every run; the constants
actually met are logged in ``SEEN`` so the lemma set is instantiated for them.
"""
import binascii
import math
import operator as ops

import z3
from crosshair import core
from crosshair.core import deep_realize, realize
from crosshair.libimpl import builtinslib as bl
from crosshair.libimpl.builtinslib import (AnySymbolicStr, BytesLike,
                                           SymbolicInt, setup_binop)
from crosshair.statespace import context_statespace
from crosshair.tracers import NoTracing, ResumedTracing, is_tracing
from crosshair.util import CrossHairValue

from vf.engine import rope

SEEN = {'and': set(), 'or': set(), 'xor': set(), 'div': set()}
STATS = {'bitops': 0, 'ratio': 0, 'percent': 0, 'hexint': 0, 'repr_cut': 0}


# --------------------------------------------------------------------------
# bit operations with one concrete, non-negative operand
# --------------------------------------------------------------------------
def runs_of_set_bits(k):
    out, i = [], 0
    while k >> i:
        if (k >> i) & 1:
            lo = i
            while (k >> i) & 1:
                i += 1
            out.append((lo, i - lo))
        else:
            i += 1
    return out


def and_const_expr(var, k):
    """z3 Int term for (var & k), var >= 0, k >= 0 concrete."""
    tot = z3.IntVal(0)
    for lo, w in runs_of_set_bits(k):
        tot = tot + ((var / z3.IntVal(2 ** lo)) % z3.IntVal(2 ** w)) * z3.IntVal(2 ** lo)
    return tot


def _nonneg(space, a):
    return space.smt_fork(a.var >= 0, probability_true=0.95)


def _bit_const(op, a, b):
    # a: SymbolicInt, b: concrete int
    space = context_statespace()
    if type(b) is bool:
        b = int(b)
    if b < 0 or not _nonneg(space, a):
        return op(realize(a), b)
    STATS['bitops'] += 1
    if op is ops.and_:
        SEEN['and'].add(b)
        if b == 0:
            return 0
        return SymbolicInt(and_const_expr(a.var, b))
    if op is ops.or_:
        SEEN['or'].add(b)
        return SymbolicInt(a.var + z3.IntVal(b) - and_const_expr(a.var, b))
    if op is ops.xor:
        SEEN['xor'].add(b)
        return SymbolicInt(a.var + z3.IntVal(b) - 2 * and_const_expr(a.var, b))
    raise AssertionError(op)


def _bit_sym_int(op, a: SymbolicInt, b: int):
    with NoTracing():
        return _bit_const(op, a, b)


def _bit_int_sym(op, a: int, b: SymbolicInt):
    with NoTracing():
        return _bit_const(op, b, a)


def _bit_sym_sym(op, a: SymbolicInt, b: SymbolicInt):
    # symbolic-by-symbolic: keep CrossHair's behaviour (realise one side) but
    # then continue symbolically on the other.
    with NoTracing():
        bb = realize(b)
        return _bit_const(op, a, bb)


# --------------------------------------------------------------------------
# exact rationals for  x / c  with concrete c
# --------------------------------------------------------------------------
class Ratio(object):
    """num/den with den a concrete positive int and num an int or SymbolicInt.

    Stands in for the float CPython would produce.  ``int``/``floor``/``ceil``
    are exact; the IEEE result agrees wherever yabgp truncates (lemma
    ``fp_div_trunc``).  Comparisons cross-multiply.
    """
    __slots__ = ('num', 'den')

    def __init__(self, num, den):
        if den < 0:
            num, den = -num, -den
        self.num, self.den = num, den

    # -- helpers
    @staticmethod
    def _coerce(o):
        if isinstance(o, Ratio):
            return o
        if isinstance(o, bool):
            return Ratio(int(o), 1)
        if isinstance(o, int) or isinstance(o, SymbolicInt):
            return Ratio(o, 1)
        if isinstance(o, float) and o == int(o):
            return Ratio(int(o), 1)
        return None

    def __add__(self, o):
        o = Ratio._coerce(o)
        if o is None:
            return NotImplemented
        if o.den == self.den:
            return Ratio(self.num + o.num, self.den)
        return Ratio(self.num * o.den + o.num * self.den, self.den * o.den)
    __radd__ = __add__

    def __neg__(self):
        return Ratio(-self.num, self.den)

    def __sub__(self, o):
        o = Ratio._coerce(o)
        if o is None:
            return NotImplemented
        return self + (-o)

    def __rsub__(self, o):
        o = Ratio._coerce(o)
        if o is None:
            return NotImplemented
        return o + (-self)

    def __mul__(self, o):
        o = Ratio._coerce(o)
        if o is None:
            return NotImplemented
        return Ratio(self.num * o.num, self.den * o.den)
    __rmul__ = __mul__

    def __truediv__(self, o):
        if isinstance(o, int) and not isinstance(o, bool) and o != 0:
            return Ratio(self.num, self.den * o)
        return NotImplemented

    def _cmp(self, o):
        o = Ratio._coerce(o)
        if o is None:
            return None
        return self.num * o.den, o.num * self.den

    def __eq__(self, o):
        c = self._cmp(o)
        return NotImplemented if c is None else c[0] == c[1]

    def __ne__(self, o):
        c = self._cmp(o)
        return NotImplemented if c is None else c[0] != c[1]

    def __lt__(self, o):
        c = self._cmp(o)
        return NotImplemented if c is None else c[0] < c[1]

    def __le__(self, o):
        c = self._cmp(o)
        return NotImplemented if c is None else c[0] <= c[1]

    def __gt__(self, o):
        c = self._cmp(o)
        return NotImplemented if c is None else c[0] > c[1]

    def __ge__(self, o):
        c = self._cmp(o)
        return NotImplemented if c is None else c[0] >= c[1]

    def __hash__(self):
        return hash((realize(self.num), self.den))

    def __bool__(self):
        return self.num != 0

    def __floor__(self):
        return self.num // self.den

    def __ceil__(self):
        return -((-self.num) // self.den)

    def __trunc__(self):
        if self.num >= 0:
            return self.num // self.den
        return -((-self.num) // self.den)

    def __float__(self):
        return realize(self.num) / self.den

    def __repr__(self):
        return 'Ratio(%r/%r)' % (self.num, self.den)

    def __ch_realize__(self):
        return realize(self.num) / self.den

    def __deepcopy__(self, memo):
        return Ratio(self.num, self.den)


def _truediv_sym_int(op, a: SymbolicInt, b: int):
    with NoTracing():
        if type(b) is bool or b == 0:
            return realize(a) / b
        STATS['ratio'] += 1
        SEEN['div'].add(b)
    return Ratio(a, b)


# --------------------------------------------------------------------------
# integers that remember the octets they were assembled from
# --------------------------------------------------------------------------
class OctetInt(SymbolicInt):
    """SymbolicInt built big-endian from known (symbolic) octets.  Converting
    it back to bytes of the same width returns those octets instead of a
    div/mod re-derivation (identity: from_bytes/to_bytes are inverse)."""

    def __init__(self, var, octets=()):
        SymbolicInt.__init__(self, var)
        self._vf_octets = tuple(octets)

    def to_bytes(self, length=1, byteorder='big', *, signed=False):
        octs = self._vf_octets
        if byteorder == 'big' and not signed and length == len(octs) and length > 0:
            STATS['octet_int'] = STATS.get('octet_int', 0) + 1
            return bytes(list(octs))
        return SymbolicInt.to_bytes(self, length, byteorder, signed=signed)


def octets_of(v):
    """known octets of an int value, or None"""
    with NoTracing():
        if isinstance(v, OctetInt):
            return v._vf_octets
    return None


def make_octet_int(octets):
    """big-endian int of a list of (symbolic) octets, remembering them"""
    val = 0
    for o in octets:
        val = val * 256 + o
    with NoTracing():
        if isinstance(val, SymbolicInt):
            return OctetInt(val.var, octets)
    return val


def skolem_octets(v, n):
    """n fresh octet variables o_0..o_{n-1} (0..255) with v == sum o_i * 256^(n-1-i); the decomposition
    is unique for 0 <= v < 256^n, so nothing is lost and z3 sees a linear constraint instead of div/mod.
    Returns a list of SymbolicInt, or None when v is concrete."""
    with NoTracing():
        if not isinstance(v, SymbolicInt):
            return None
        known = octets_of(v)
        if known is not None and len(known) == n:
            return list(known)
        space = context_statespace()
        names = [z3.Int('vfsk%d_%s' % (i, space.uniq())) for i in range(n)]
        tot = z3.IntVal(0)
        for o in names:
            space.add(z3.And(o >= 0, o < 256))
            tot = tot * 256 + o
        space.add(v.var == tot)
        STATS['skolem'] = STATS.get('skolem', 0) + 1
        return [SymbolicInt(o) for o in names]


def _my_from_bytes(b, byteorder='big', *, signed=False):
    r = int.from_bytes(b, byteorder, signed=signed)
    with NoTracing():
        wrap = (isinstance(r, SymbolicInt) and not isinstance(r, OctetInt) and byteorder == 'big'
                and not signed and isinstance(b, BytesLike))
    if wrap:
        n = len(b)
        if 0 < n <= 16:
            octs = [b[i] for i in range(n)]
            with NoTracing():
                return OctetInt(r.var, octs)
    return r


# --------------------------------------------------------------------------
# digit-run abstraction for  str(int)  /  int(str)  /  text equality
# --------------------------------------------------------------------------
class DigitCP(SymbolicInt):
    """Code point 48 + (src // 10**pos) % 10 of the decimal rendering of the
    non-negative symbolic int ``src`` which, on this path, has exactly ``n``
    digits.  Remembering the provenance lets
      * int(str(x))            return x           (identity, n digits known)
      * str(x) == str(y)       become  x == y     (both have the same digit count)
    instead of handing z3 nested div/mod-by-10 arithmetic."""

    def __init__(self, var, src=None, pos=0, n=1):
        SymbolicInt.__init__(self, var)
        self._vf_src, self._vf_pos, self._vf_n = src, pos, n


def _digits_of(self):
    """materialised decimal text of a non-negative symbolic int (forks on the digit count)"""
    n, thr = 1, 10
    while self >= thr:
        n += 1
        thr *= 10
    with NoTracing():
        v = self.var
        cps = []
        for k in range(n - 1, -1, -1):
            d = (v if k == 0 else v / z3.IntVal(10 ** k)) % 10
            cps.append(DigitCP(z3.IntVal(48) + d, self, k, n))
        STATS['digit_runs'] = STATS.get('digit_runs', 0) + 1
        return bl.LazyIntSymbolicStr(cps)


def _sym_int_repr(self):
    if self < 0:
        return "-" + (-self).__repr__()
    if USE_ROPES:
        with NoTracing():
            return rope.rope_of_int(self)
    return _digits_of(self)


USE_ROPES = True


def _cp_list(s):
    """python list of the code points of a LazyIntSymbolicStr / str, or None"""
    if isinstance(s, str):
        return [ord(c) for c in s]
    if isinstance(s, bl.LazyIntSymbolicStr):
        cps = s._codepoints
        if isinstance(cps, (list, tuple)):
            return list(cps)
    return None


def _full_run_at(cps, i):
    """if cps[i:] starts with the complete digit run of one source, return (src, n)"""
    c = cps[i]
    if not isinstance(c, DigitCP) or c._vf_pos != c._vf_n - 1:
        return None
    n, src = c._vf_n, c._vf_src
    if i + n > len(cps):
        return None
    for k in range(n):
        d = cps[i + k]
        if not (isinstance(d, DigitCP) and d._vf_src is src and d._vf_n == n and d._vf_pos == n - 1 - k):
            return None
    return src, n


def _digit_source(val):
    """the int x such that val is exactly str(x), else None (NoTracing)"""
    cps = _cp_list(val)
    if not cps:
        return None
    r = _full_run_at(cps, 0)
    if r is None or r[1] != len(cps):
        return None
    return r[0]


def _lazy_str_eq(self, other):
    with NoTracing():
        other_is_rope = isinstance(other, rope.Rope)
    if other_is_rope:
        return other.__eq__(self)
    with NoTracing():
        a, b = _cp_list(self), _cp_list(other)
        plan = None
        if a is not None and b is not None:
            if len(a) != len(b):
                return False
            conds, i, ok = [], 0, True
            while i < len(a):
                ra, rb = _full_run_at(a, i), _full_run_at(b, i)
                if ra is not None and rb is not None and ra[1] == rb[1]:
                    if ra[0] is not rb[0]:
                        conds.append(ra[0].var == rb[0].var)
                    i += ra[1]
                    continue
                x, y = a[i], b[i]
                xs, ys = isinstance(x, SymbolicInt), isinstance(y, SymbolicInt)
                if not xs and not ys:
                    if int(x) != int(y):
                        return False
                elif xs and ys:
                    conds.append(x.var == y.var)
                elif xs:
                    conds.append(x.var == z3.IntVal(int(y)))
                else:
                    conds.append(y.var == z3.IntVal(int(x)))
                i += 1
            if not conds:
                return True
            STATS['text_eq'] = STATS.get('text_eq', 0) + 1
            return bl.SymbolicBool(z3.And(*conds) if len(conds) > 1 else conds[0])
    return _ORIG['str_eq'](self, other)


def _lazy_str_ne(self, other):
    r = _lazy_str_eq(self, other)
    if r is NotImplemented:
        return r
    return not r


_ORIG = {}


# --------------------------------------------------------------------------
# tagged hex:  int(binascii.b2a_hex(b), 16)  ==  int.from_bytes(b, 'big')
# --------------------------------------------------------------------------
def _hex_cp(bvar, hi):
    d = (bvar / 16) if hi else (bvar % 16)
    return z3.If(d < 10, d + 48, d + 87)


class HexOfBytes(object):
    """What b2a_hex/hexlify returns for symbolic input; realises on any use
    other than int(..., 16) / .decode()."""

    def __init__(self, data):
        self._vf_data = data

    def decode(self, *a, **kw):
        # hex text of symbolic octets as a symbolic string (two code points per octet)
        data = self._vf_data
        n = len(data)
        items = [data[i] for i in range(n)]
        with NoTracing():
            cps = []
            for b in items:
                if isinstance(b, SymbolicInt):
                    cps.append(SymbolicInt(_hex_cp(b.var, True)))
                    cps.append(SymbolicInt(_hex_cp(b.var, False)))
                else:
                    t = '%02x' % int(b)
                    cps.extend([ord(t[0]), ord(t[1])])
            STATS['hex_text'] = STATS.get('hex_text', 0) + 1
            if not cps:
                return ''
            return bl.LazyIntSymbolicStr(cps)

    def _vf_real(self):
        return binascii.b2a_hex(bytes(deep_realize(self._vf_data)))

    def __ch_realize__(self):
        return self._vf_real()

    def __getattr__(self, name):
        return getattr(self._vf_real(), name)

    def __len__(self):
        return 2 * len(self._vf_data)

    def __eq__(self, o):
        return self._vf_real() == o

    def __hash__(self):
        return hash(self._vf_real())

    def __getitem__(self, i):
        return self._vf_real()[i]

    def __bytes__(self):
        return self._vf_real()

    def __repr__(self):
        return repr(self._vf_real())


def _is_symbolic_bytes(b):
    with NoTracing():
        return isinstance(b, BytesLike)


def _my_b2a_hex(data, *a, **kw):
    if not a and not kw and _is_symbolic_bytes(data):
        return HexOfBytes(data)
    return binascii.b2a_hex(data, *a, **kw)


def _my_hexlify(data, *a, **kw):
    if not a and not kw and _is_symbolic_bytes(data):
        return HexOfBytes(data)
    return binascii.hexlify(data, *a, **kw)


_MISSING = object()


def _my_int(val=0, base=_MISSING):
    with NoTracing():
        kind = 0
        if isinstance(val, Ratio):
            kind = 1
        elif isinstance(val, HexOfBytes):
            kind = 2
        elif hasattr(type(val), '__vf_int__'):
            kind = 3
        elif isinstance(val, rope.Rope):
            if base is _MISSING or (type(base) is int and base == 10):
                x = val._single_int()
                if x is not None:
                    rope.STATS['int_of_rope'] += 1
                    return x
            kind = 4
        elif isinstance(val, bl.LazyIntSymbolicStr) and (base is _MISSING or (type(base) is int and base == 10)):
            src = _digit_source(val)
            if src is not None:
                STATS['int_of_str'] = STATS.get('int_of_str', 0) + 1
                return src
    if kind == 1:
        if base is not _MISSING:
            raise TypeError("int() can't convert non-string with explicit base")
        return val.__trunc__()
    if kind == 3:
        return val.__vf_int__()
    if kind == 4:
        val = val._materialise()
    if kind == 2:
        if base is not _MISSING and base == 16:
            data = val._vf_data
            if len(data) == 0:
                raise ValueError("invalid literal for int() with base 16: b''")
            STATS['hexint'] += 1
            return int.from_bytes(data, 'big')
        val = val._vf_real()
    if base is _MISSING:
        return int(val)
    return int(val, base)


def _my_ceil(x):
    with NoTracing():
        is_ratio = isinstance(x, Ratio)
    if is_ratio:
        return x.__ceil__()
    return math.ceil(x)


def _my_floor(x):
    with NoTracing():
        is_ratio = isinstance(x, Ratio)
    if is_ratio:
        return x.__floor__()
    return math.floor(x)


# --------------------------------------------------------------------------
# '%s.%s' % (...) with symbolic pieces
# --------------------------------------------------------------------------
def _parse_simple_format(fmt):
    """Split a %-format into literal pieces and plain %s/%d/%i conversions.
    Returns (pieces, nconv) or None if anything fancier is present."""
    pieces, i, n = [], 0, len(fmt)
    cur = ''
    nconv = 0
    while i < n:
        c = fmt[i]
        if c != '%':
            cur += c
            i += 1
            continue
        if i + 1 >= n:
            return None
        d = fmt[i + 1]
        if d == '%':
            cur += '%'
            i += 2
            continue
        if d in 'sdi':
            pieces.append(cur)
            pieces.append(d)
            cur = ''
            nconv += 1
            i += 2
            continue
        return None
    pieces.append(cur)
    return pieces, nconv


def _has_symbolic(x, depth=0):
    if isinstance(x, CrossHairValue):
        return True
    if depth > 6:
        return False
    if isinstance(x, (tuple, list)):
        return any(_has_symbolic(e, depth + 1) for e in x)
    if isinstance(x, dict):
        return any(_has_symbolic(e, depth + 1) for e in x.values())
    return False


class _Opaque(object):
    def __str__(self):
        return '<symbolic value>'
    __repr__ = __str__


def _my_percent(self, other):
    with NoTracing():
        plan = None
        if type(self) is str and type(other) is dict and '%(' in self:
            # CUT: "message %% {name: value}" only occurs in yabgp's exception constructors; the *text* of an
            # error message is outside every claim, so symbolic values are rendered as an opaque token
            # instead of being realised (formatting caused most forked states in the probes).
            if any(_has_symbolic(v) or isinstance(v, (BytesLike, HexOfBytes)) for v in other.values()):
                STATS['msg_cut'] = STATS.get('msg_cut', 0) + 1
                safe = dict((k, (_Opaque() if (isinstance(v, CrossHairValue) or _has_symbolic(v)) else v))
                            for k, v in other.items())
                return self % safe
        if type(self) is str and _has_symbolic(other) and not isinstance(other, dict):
            parsed = _parse_simple_format(self)
            if parsed is not None:
                pieces, nconv = parsed
                args = other if isinstance(other, tuple) else (other,)
                if isinstance(args, tuple) and len(args) == nconv:
                    ok = True
                    for a in args:
                        if not (isinstance(a, (int, str, SymbolicInt, AnySymbolicStr, rope.Rope))
                                and not isinstance(a, bool)):
                            ok = False
                    # %d of a str must raise - leave that to CPython
                    convs = pieces[1::2]
                    for cv, a in zip(convs, args):
                        if cv in 'di' and isinstance(a, (str, AnySymbolicStr, rope.Rope)):
                            ok = False
                    if ok:
                        plan = (pieces, args)
    if plan is None:
        return str.__mod__(self, other)
    STATS['percent'] += 1
    pieces, args = plan
    out = pieces[0]
    k = 0
    for j in range(1, len(pieces), 2):
        out = out + str(args[k]) + pieces[j + 1]
        k += 1
    return out


# --------------------------------------------------------------------------
# cuts: decoration of error reports
# --------------------------------------------------------------------------
def _bytes_text(obj):
    """text of repr(bytes-like) / str(bytes-like) for symbolic input.
    * hex text (what b2a_hex / hexlify returned): repr is exactly  b'<the hex digits>'  - faithful, and symbolic
      (two code points per octet), so decoded values such as an unknown TLV's  str(b2a_hex(value))  compare by content;
    * raw symbolic bytes: the real repr escapes octet by octet (a fork per octet class); it only decorates error
      reports, so it is CUT to an injective stand-in  b'<hex of the octets>'  (equal texts <=> equal octets);
      empty or fully concrete content gets the real repr."""
    with NoTracing():
        is_hex = isinstance(obj, HexOfBytes)
    if is_hex:
        return "b'" + obj.decode() + "'"
    n = len(obj)
    if n == 0:
        return "b''"
    items = [obj[i] for i in range(n)]
    with NoTracing():
        concrete = all(type(x) is int for x in items)
    if concrete:
        return repr(bytes(items))
    STATS['repr_cut'] += 1
    return "b'" + HexOfBytes(obj).decode() + "'"


def _my_repr(obj):
    with NoTracing():
        cut = isinstance(obj, (BytesLike, HexOfBytes))
    if cut:
        return _bytes_text(obj)
    return repr(obj)


def _my_str(*a, **kw):
    # str(bytes-like) is the repr of the bytes
    if len(a) == 1 and not kw:
        with NoTracing():
            cut = isinstance(a[0], (BytesLike, HexOfBytes))
            is_rope = isinstance(a[0], rope.Rope)
        if is_rope:
            return a[0]
        if cut:
            return _bytes_text(a[0])
    return str(*a, **kw)


_STRUCT_SIZES = {'B': 1, 'b': 1, 'H': 2, 'h': 2, 'I': 4, 'i': 4, 'L': 4, 'l': 4, 'Q': 8, 'q': 8}


def _my_struct_unpack(fmt, buffer):
    # struct.unpack('!%dH' % n, buf) with symbolic count n: valid iff n * size == len(buf); decide that with
    # one fork instead of realising n (256 values of a length octet)
    import struct as _struct
    with NoTracing():
        plan = None
        if isinstance(fmt, rope.Rope):
            ps = fmt._parts
            if len(ps) == 3 and isinstance(ps[0], str) and ps[0] in ('!', '>', '<', '=') and \
                    isinstance(ps[1], rope.Int) and isinstance(ps[2], str) and ps[2] in _STRUCT_SIZES:
                plan = (ps[0], ps[1].x, ps[2], _STRUCT_SIZES[ps[2]])
    if plan is None:
        with NoTracing():
            exact = None
            if type(fmt) is str and isinstance(buffer, BytesLike):
                try:
                    exact = _struct.calcsize(fmt)
                except Exception:
                    exact = None
        if exact is not None and len(buffer) != exact:
            # CrossHair's struct model only rejects buffers that are too short; CPython requires the exact size
            raise _struct.error('unpack requires a buffer of %d bytes' % exact)
        with NoTracing():
            whole = None
            if type(fmt) is str and isinstance(buffer, BytesLike):
                f = fmt[1:] if fmt[:1] in '!><=@' else fmt
                if f.endswith('s') and f[:-1].isdigit():
                    whole = int(f[:-1])
        if whole is not None:
            # '!Ns': the N octets themselves (CrossHair realises the buffer for 's')
            if len(buffer) != whole:
                raise _struct.error('unpack requires a buffer of %d bytes' % whole)
            return (buffer,)
        return _struct.unpack(fmt, buffer)
    order, n, ch, size = plan
    blen = len(buffer)
    if n * size != blen:
        raise _struct.error('unpack requires a buffer of %d bytes' % (0,))
    STATS['struct_count'] = STATS.get('struct_count', 0) + 1
    k = realize(blen) // size
    return _struct.unpack(order + str(k) + ch, buffer)


def _my_inet_ntop(family, data):
    import socket as _socket
    with NoTracing():
        sym = isinstance(data, BytesLike)
    if not sym:
        return _socket.inet_ntop(family, data)
    n = len(data)
    if family == _socket.AF_INET:
        if n != 4:
            raise ValueError('invalid length of packed IP address string')
        return '%s.%s.%s.%s' % (data[0], data[1], data[2], data[3])
    if family == _socket.AF_INET6:
        if n != 16:
            raise ValueError('invalid length of packed IP address string')
        with NoTracing():
            STATS['inet6_lazy'] = STATS.get('inet6_lazy', 0) + 1
            return rope.Rope([rope.Lazy(lambda: _socket.inet_ntop(family, bytes(deep_realize(data))))])
    return _socket.inet_ntop(family, deep_realize(data))


def _my_bytearray_fromhex(s):
    # CrossHair 0.0.110's SymbolicByteArray.fromhex trips an internal assertion; hex text is concrete in yabgp's
    # encoders (hex(int(text))[2:]), a symbolic one is realised
    with NoTracing():
        if isinstance(s, CrossHairValue):
            s = deep_realize(s)
        return bytearray.fromhex(s)


def _my_ord(c):
    # ord(b) of a length-1 symbolic bytes object: its only octet (CrossHair realises)
    with NoTracing():
        sym = isinstance(c, BytesLike)
    if sym:
        if len(c) != 1:
            raise TypeError('ord() expected a character, but string of length %d found' % len(c))
        return c[0]
    return ord(c)


def _my_bytes_decode(self, *a, **kw):
    # unbound form  bytes.decode(x)  with x symbolic: dispatch to the symbolic type's own decode
    with NoTracing():
        sym = isinstance(self, BytesLike)
    if sym:
        return self.decode(*a, **kw)
    return bytes.decode(self, *a, **kw)


def _ascii_case(self, lo, hi, delta, orig):
    """upper()/lower() of a symbolic string whose code points are all ASCII:
    c -> c + delta when lo <= c <= hi (CrossHair's own version walks the Unicode
    tables with two solver forks per character)."""
    n = len(self)
    with NoTracing():
        cps = self._codepoints
        space = context_statespace()
    items = [cps[i] for i in range(n)]
    with NoTracing():
        conds, out = [], []
        for c in items:
            if isinstance(c, SymbolicInt):
                conds.append(c.var < 128)
        if conds and not space.smt_fork(z3.And(*conds), probability_true=0.95):
            items = None
        else:
            for c in items:
                if isinstance(c, DigitCP):
                    out.append(c)
                elif isinstance(c, SymbolicInt):
                    out.append(SymbolicInt(z3.If(z3.And(c.var >= lo, c.var <= hi), c.var + delta, c.var)))
                else:
                    c = int(c)
                    if c >= 128:
                        items = None
                        break
                    out.append(c + delta if lo <= c <= hi else c)
        if items is not None:
            STATS['ascii_case'] = STATS.get('ascii_case', 0) + 1
            return bl.LazyIntSymbolicStr(out)
    return orig(self)


_LAYER = {
    int: _my_int,
    math.ceil: _my_ceil,
    math.floor: _my_floor,
    str.__mod__: _my_percent,
    repr: _my_repr,
    binascii.b2a_hex: _my_b2a_hex,
    binascii.hexlify: _my_hexlify,
    int.from_bytes: _my_from_bytes,
    bytes.decode: _my_bytes_decode,
    ord: _my_ord,
    str: _my_str,
    bytearray.fromhex: _my_bytearray_fromhex,
}
try:
    import struct as _struct_mod
    import socket as _socket_mod
    _LAYER[_socket_mod.inet_ntop] = _my_inet_ntop
    _LAYER[_struct_mod.unpack] = _my_struct_unpack
except Exception:
    pass


_installed = False


def install():
    global _installed
    if _installed:
        return
    _installed = True
    # CrossHair's "premature realize" heuristic: when an argument was realised on earlier paths, later iterations pick
    # one concrete value for it up front with growing probability.  Those sampled paths can never exhaust anything
    # (the verdict here needs the symbolic side exhausted) and were seen to eat 90% of the iterations of an
    # obligation (C06 community pairs: 452 of 500 paths).  The node is still created (determinism) but the sampling
    # branch is never taken while the symbolic branch has work left.
    from crosshair.statespace import StateSpace as _SS
    _fork_parallel = _SS.fork_parallel

    def _no_premature(self, false_probability, desc=''):
        return _fork_parallel(self, 1.0, desc)
    _SS.fork_parallel = _no_premature

    # int.to_bytes of a symbolic int (struct.pack goes through it): CrossHair derives each octet as (v / 256**i) % 256,
    # and every later comparison of re-assembled octets with the original value is a div/mod query (seconds each, some
    # `unknown`).  Fresh octet variables tied to v by one linear constraint say the same thing (the base-256
    # decomposition of 0 <= v < 256**n is unique) and are decided in milliseconds.
    _sym_to_bytes = SymbolicInt.to_bytes

    def _skolem_to_bytes(self, length=1, byteorder='big', *, signed=False):
        with NoTracing():
            plain = (type(length) is int and 0 < length <= 16 and signed is False and byteorder in ('big', 'little')
                     and type(self) is SymbolicInt)
        if not plain:
            return _sym_to_bytes(self, length, byteorder, signed=signed)
        if self < 0 or self >= 256 ** length:
            raise OverflowError
        octs = skolem_octets(self, length)
        if octs is None:
            return _sym_to_bytes(self, length, byteorder, signed=signed)
        STATS['to_bytes_skolem'] = STATS.get('to_bytes_skolem', 0) + 1
        if byteorder == 'little':
            octs = list(reversed(octs))
        return bytes(list(octs))
    SymbolicInt.to_bytes = _skolem_to_bytes

    setup_binop(_bit_sym_sym, {ops.and_, ops.or_, ops.xor})
    setup_binop(_bit_sym_int, {ops.and_, ops.or_, ops.xor})
    setup_binop(_bit_int_sym, {ops.and_, ops.or_, ops.xor})
    setup_binop(_truediv_sym_int, {ops.truediv})
    bl._BIN_OPS.clear()

    _bytes_getitem = bl.SymbolicBytes.__getitem__

    def _clamped_getitem(self, i):
        # b[lo:hi] with symbolic bounds: every bound >= len(b) behaves like len(b); decide that with one
        # solver fork instead of letting the slice realise each of the (up to 65536) values
        if isinstance(i, slice) and i.step is None:
            with NoTracing():
                sym = isinstance(i.start, SymbolicInt) or isinstance(i.stop, SymbolicInt)
            if sym:
                n = len(self)
                lo, hi = i.start, i.stop
                with NoTracing():
                    lo_sym, hi_sym = isinstance(lo, SymbolicInt), isinstance(hi, SymbolicInt)
                if lo_sym and lo >= n:
                    lo = n
                if hi_sym and hi >= n:
                    hi = n
                STATS['slice_clamp'] = STATS.get('slice_clamp', 0) + 1
                i = slice(lo, hi)
        return _bytes_getitem(self, i)
    bl.SymbolicBytes.__getitem__ = _clamped_getitem

    rope.MATERIALISE_INT = _digits_of
    SymbolicInt.__repr__ = _sym_int_repr
    _ORIG['str_eq'] = bl.LazyIntSymbolicStr.__eq__
    bl.LazyIntSymbolicStr.__eq__ = _lazy_str_eq
    bl.LazyIntSymbolicStr.__ne__ = _lazy_str_ne
    _up, _low = bl.LazyIntSymbolicStr.upper, bl.LazyIntSymbolicStr.lower
    bl.LazyIntSymbolicStr.upper = lambda self: _ascii_case(self, 97, 122, -32, _up)
    bl.LazyIntSymbolicStr.lower = lambda self: _ascii_case(self, 65, 90, 32, _low)

    _enter, _exit = core.Patched.__enter__, core.Patched.__exit__

    def enter(self):
        r = _enter(self)
        core.COMPOSITE_TRACER.patching_module.add(_LAYER)
        return r

    def exit_(self, *a):
        core.COMPOSITE_TRACER.patching_module.pop(_LAYER)
        return _exit(self, *a)

    core.Patched.__enter__ = enter
    core.Patched.__exit__ = exit_
