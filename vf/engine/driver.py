"""In-process path exploration of one obligation (modelled on
crosshair.core.explore_paths / attempt_call, CrossHair 0.0.110).

An obligation is a plain Python function with annotated parameters that
returns a truthy value when the property holds on this path.  ``assume(c)``
plays the role of a precondition (the path is ignored when ``c`` is false);
``cover(label)`` records that a path reached an interesting point (the
reachability witness that replaces the ``assert False`` twin: a label only
counts when a *feasible, completed* path passed it).

Verdicts:
  CONFIRMED  path tree exhausted, every path ended truthy, >=1 path completed
             and every required cover label was reached
  REFUTED    a path ended falsy / raised; the model of its arguments is returned
  UNKNOWN    anything else (budget, solver unknown, unsupported path)
  VACUOUS    exhausted but nothing completed or a required label never reached
"""
import inspect
import sys
import time
import traceback

COVER = {}
DEBUG = bool(__import__('os').environ.get('VF_DEBUG'))
_PATH_COVER = []


class Refute(Exception):
    """Raised by harness helpers to fail the current path with a reason."""


def cover(label):
    _PATH_COVER.append(label)
    return True


ACTIVE_KNOWN = set()


def known(tag, cond):
    """the harness reached a state that a listed, still-reproducing known finding describes (tag): leave it out of
    the claim (the path is ignored).  Not active during replay, so the witness of the finding still fails."""
    if tag in ACTIVE_KNOWN and cond:
        from crosshair.util import IgnoreAttempt
        if DEBUG:
            sys.stderr.write('KNOWN %s\n' % tag)
        raise IgnoreAttempt('known finding ' + tag)
    return True


def assume(cond):
    from crosshair.util import IgnoreAttempt
    if not cond:
        if DEBUG:
            fr = sys._getframe(1)
            sys.stderr.write('ASSUME-FALSE %s:%d\n' % (fr.f_code.co_filename.rsplit('/', 1)[-1], fr.f_lineno))
        raise IgnoreAttempt('assume')
    return True


def _symbolic_side_exhausted(node):
    """below the chain of 'premature realize' nodes (one per argument), is the symbolic subtree exhausted?"""
    n = 0
    while type(node).__name__ == 'ParallelNode' and n < 64:
        node = node.negative
        n += 1
    return n > 0 and type(node).__name__ != 'NodeStem' and node.is_exhausted()


def _refresh(node, depth=0):
    name = type(node).__name__
    if name in ('NodeStem', 'SearchLeaf') or depth > 5000:
        return
    for nm in ('child', 'positive', 'negative'):
        ch = getattr(node, nm, None)
        if ch is not None:
            _refresh(ch, depth + 1)
    if name == 'DetachedPathNode':
        return
    try:
        r, e = node.compute_result(node.get_result())
    except Exception:
        return
    node.result, node.exhausted = r, e


def explore(fn, deadline_wall, region=None, max_paths=1000000, per_path_timeout=None,
            want_example=True, before_path=None):
    """Returns dict(status=..., paths=..., confirmed=..., ignored=..., unknown=...,
    cex=..., detail=..., covers=...)."""
    from crosshair import core
    from crosshair.core import (ExceptionFilter, NoTracing, Patched, ResumedTracing,
                                deep_realize, gen_args)
    from crosshair.condition_parser import condition_parser
    from crosshair.copyext import CopyMode, deepcopyext
    from crosshair.options import DEFAULT_OPTIONS
    from crosshair.statespace import (CallAnalysis, RootNode, StateSpace,
                                      StateSpaceContext, VerificationStatus)
    from crosshair.tracers import COMPOSITE_TRACER
    from crosshair.util import (IgnoreAttempt, NotDeterministic, UnexploredPath)

    sig = inspect.signature(fn)
    search_root = RootNode()
    res = dict(status='UNKNOWN', paths=0, confirmed=0, ignored=0, unknown=0, cex=None,
               detail='', covers={}, unknown_reasons=[])
    exhausted = False
    t_start = time.time()
    while res['paths'] < max_paths:
        now = time.time()
        if now > deadline_wall:
            res['detail'] = 'wall budget exhausted after %d paths' % res['paths']
            break
        res['paths'] += 1
        if before_path is not None:
            before_path()
        ppt = per_path_timeout if per_path_timeout else max(5.0, min(60.0, (deadline_wall - now)))
        itr_start = time.process_time()
        space = StateSpace(execution_deadline=itr_start + ppt,
                           model_check_timeout=ppt / 2, search_root=search_root)
        del _PATH_COVER[:]
        status = None
        failing = None
        with condition_parser(DEFAULT_OPTIONS.analysis_kind), Patched(), \
                COMPOSITE_TRACER, NoTracing(), StateSpaceContext(space):
            try:
                pre_args = gen_args(sig)
                space.checkpoint()
                args = deepcopyext(pre_args, CopyMode.BEST_EFFORT, {})
                ret = None
                with ExceptionFilter() as efilter, ResumedTracing():
                    if region is not None and region(**args.arguments):
                        raise IgnoreAttempt('known-finding region')
                    try:
                        ret = fn(*args.args, **args.kwargs)
                    except BaseException as be:
                        if type(be).__name__ == 'FuelExhausted':
                            raise Refute('FuelExhausted(loop made no progress within its fuel): %s' % (be.args,))
                        raise
                    ret = bool(ret)
                if efilter.ignore:
                    status = None
                    if DEBUG:
                        sys.stderr.write('IGNORED(filter)\n')
                elif efilter.user_exc is not None:
                    exc, tb = efilter.user_exc
                    if isinstance(exc, NotDeterministic):
                        raise NotDeterministic
                    with ResumedTracing():
                        space.detach_path(exc)
                    failing = ('raised %s: %s' % (type(exc).__name__, _safe_str(exc)),
                               ''.join(tb.format()[-6:]))
                    status = VerificationStatus.REFUTED
                elif ret:
                    status = VerificationStatus.CONFIRMED
                    if res.get('example') is None and want_example:
                        with ResumedTracing():
                            space.detach_path()
                        ex = deep_realize(pre_args)
                        res['example'] = {k: _plain(v) for k, v in ex.arguments.items()}
                else:
                    with ResumedTracing():
                        space.detach_path()
                    failing = ('returned False', '')
                    status = VerificationStatus.REFUTED
                if failing is not None:
                    cex = deep_realize(pre_args)
                    res['cex'] = {k: _plain(v) for k, v in cex.arguments.items()}
            except IgnoreAttempt as ia:
                status = None
                if DEBUG:
                    sys.stderr.write('IGNORED(outer) %r\n' % (ia.args,))
            except NotDeterministic:
                status = VerificationStatus.UNKNOWN
                res['unknown_reasons'].append('NotDeterministic')
            except UnexploredPath as e:
                status = VerificationStatus.UNKNOWN
                res['unknown_reasons'].append(type(e).__name__ + ':' + _safe_str(e)[:80])
            _analysis, exhausted = space.bubble_status(CallAnalysis(status))
        if status is None:
            res['ignored'] += 1
        elif status == VerificationStatus.CONFIRMED:
            res['confirmed'] += 1
            for lab in _PATH_COVER:
                res['covers'][lab] = res['covers'].get(lab, 0) + 1
        elif status == VerificationStatus.UNKNOWN:
            res['unknown'] += 1
        if failing is not None:
            res['status'] = 'REFUTED'
            res['detail'] = failing[0]
            res['trace'] = failing[1]
            break
        if exhausted:
            break
        if res['unknown'] and res['paths'] % 8 == 0 and _symbolic_side_exhausted(search_root.child):
            # every symbolic path has been explored and some ended UNKNOWN: what CrossHair would do from here on is
            # sample concrete argument values ("premature realize"), which can refute but never confirm
            res['detail'] = 'symbolic paths exhausted, %d of them unknown' % res['unknown']
            break
    res['explore_s'] = round(time.time() - t_start, 3)
    res['unknown_reasons'] = sorted(set(res['unknown_reasons']))[:5]
    if res['status'] == 'REFUTED':
        return res
    if exhausted:
        top = search_root.child.get_result()
        if top.verification_status != VerificationStatus.CONFIRMED and res['unknown'] == 0 and res['confirmed'] > 0:
            # CrossHair caches each node's merged result and has been seen to leave a stale UNKNOWN in a node whose
            # children are all exhausted and CONFIRMED (0.0.110): refresh the caches bottom-up with the nodes' own
            # compute_result before reading the verdict.  Unexplored stems still count as UNKNOWN.
            _refresh(search_root.child)
            top = search_root.child.get_result()
            res['refreshed'] = True
        if top.verification_status == VerificationStatus.CONFIRMED and res['unknown'] == 0:
            if res['confirmed'] == 0:
                res['status'] = 'VACUOUS'
                res['detail'] = 'no path satisfied the assumptions and completed'
            else:
                res['status'] = 'CONFIRMED'
        elif res['unknown'] == 0 and res['confirmed'] == 0:
            res['status'] = 'VACUOUS'
            res['detail'] = 'every path was excluded by an assumption (%d paths)' % res['ignored']
        else:
            res['status'] = 'UNKNOWN'
            res['detail'] = 'exhausted with %d unknown paths %s' % (res['unknown'], res['unknown_reasons'])
    return res


def _safe_str(e):
    try:
        return str(e)
    except BaseException:
        return '<unprintable>'


def _plain(v):
    if isinstance(v, (bool, int, str)) or v is None:
        return v
    if isinstance(v, float):
        return v
    if isinstance(v, (bytes, bytearray)):
        return {'__bytes__': bytes(v).hex()}
    if isinstance(v, (list, tuple)):
        return [_plain(x) for x in v]
    if isinstance(v, dict):
        return {str(k): _plain(x) for k, x in v.items()}
    return repr(v)


def unplain(v):
    if isinstance(v, dict) and '__bytes__' in v:
        return bytes.fromhex(v['__bytes__'])
    if isinstance(v, list):
        return [unplain(x) for x in v]
    return v
