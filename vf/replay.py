"""Concrete replay of one obligation on the *real* code: fresh interpreter, no
CrossHair, no engine extension, real netaddr, real time; only the stubs needed
to import the module (twisted / radix / simplejson are not installed).

usage: python -m vf.replay <replay.json> [--trace]
exit 0 = harness returned truthy (property held on this input)
exit 1 = harness returned falsy / raised / exceeded its CPU limit (violation reproduced)
Prints one JSON line with the outcome.
"""
import importlib
import json
import resource
import signal
import sys
import time


def run(spec, trace=False):
    from vf import loader
    loader.install(symbolic=False)
    from vf.engine.driver import unplain
    mod = importlib.import_module(spec['module'])
    mod.P = spec.get('params', {})
    if hasattr(mod, 'setup'):
        mod.setup(mod.P)
    fn = getattr(mod, spec['fn'])
    args = {k: unplain(v) for k, v in spec['args'].items()}
    cpu = spec.get('replay_cpu_s', 20)
    try:
        resource.setrlimit(resource.RLIMIT_CPU, (cpu, cpu + 5))
        resource.setrlimit(resource.RLIMIT_AS, (4 * 2 ** 30,) * 2)
    except Exception:
        pass

    def on_xcpu(sig, frm):
        raise TimeoutError('CPU limit of %ss exceeded (non-termination)' % cpu)
    signal.signal(signal.SIGXCPU, on_xcpu)
    entered = set()
    if trace:
        repo = loader.REPO

        def prof(frame, event, arg):
            if event == 'call':
                co = frame.f_code
                if co.co_filename.startswith(repo):
                    entered.add('%s:%s' % (co.co_filename[len(repo) + 1:], co.co_qualname))
        sys.setprofile(prof)
    out = {'id': spec.get('id'), 'args': spec['args']}
    t0 = time.time()
    try:
        # replay runs WITHOUT loop fuel: a spinning loop shows up as CPU / memory exhaustion
        loader.FUEL.reset(None)
        r = fn(**args)
        out['returned'] = bool(r)
        out['holds'] = bool(r)
    except BaseException as e:  # noqa
        if type(e).__name__ == 'IgnoreAttempt':
            out['holds'] = True
            out['ignored'] = True
        else:
            import traceback
            out['holds'] = False
            out['raised'] = '%s: %s' % (type(e).__name__, str(e)[:300])
            out['trace'] = traceback.format_exc()[-1500:]
    finally:
        sys.setprofile(None)
    out['wall_s'] = round(time.time() - t0, 3)
    if trace:
        out['functions'] = sorted(entered)
    return out


def main():
    spec = json.load(open(sys.argv[1]))
    out = run(spec, trace='--trace' in sys.argv)
    sys.stdout.write('\n' + json.dumps(out) + '\n')
    sys.stdout.flush()
    sys.exit(0 if out['holds'] else 1)


if __name__ == '__main__':
    main()
