"""C09 - decoding agrees with an independent RFC encoder, including legal variants; checked malformations are reported."""
import itertools

from vf.props.common import assume, cover, ob, same
from vf.ref import rfc_encode as E
from vf.ref.iana import WELL_KNOWN_COMMUNITIES
from vf import session as S

CLAIMED = True
P = {}
LEVEL_TEXT = ('Bounded symbolic verification, decode-only: messages are produced by an independent RFC encoder (vf/ref/rfc_encode.py) '
              'with symbolic field values and each legal encoding variant switched on (extended-length flag on short attributes, '
              'non-zero trailing prefix bits, every order of the attributes, several AS_PATH segments, AS4_PATH / AS4_AGGREGATOR, '
              '2-/4-octet AS mode, add-path identifiers) and decoded by the real Update.parse: the result must be exactly the values '
              'encoded, no error flagged; for the malformations the decoder checks (ORIGIN > 2, prefix length > 32, AS_PATH segment '
              'type outside 1..4, wrong length of a fixed-length attribute) an error must be reported instead of a value. Also through '
              'BGP._update_received (update_received vs on_update_error).')
LEVEL_NOTE = 'No text parsing on this path, so all numeric fields of an obligation are symbolic at once; shapes (which attributes, list sizes, prefix lengths) enumerated.'
LEVEL_ADDED = "Also: the C07 families (IPv6 unicast, labeled IPv4, VPNv4; 0, 1 or 2 routes; both directions; extended-length flag) and zero-route MP_REACH / MP_UNREACH of VPNv6, EVPN, flowspec through the reference encoder. Quick tier: AS4_PATH before AS_PATH / AGGREGATOR. Add-path identifiers in IPv6 MP_REACH / MP_UNREACH; the empty UPDATE; AGGREGATOR of the other mode's length as a length error. Withdrawn routes, attributes and NLRI in one UPDATE."
TECHNIQUE = 'symbolic execution of Update.parse on the output of an independent RFC encoder with symbolic fields (CrossHair+z3), differential oracle'
EXPLANATION = 'C09: independent encoder -> real decoder, legal variants and checked malformations.'
BOUNDS = 'prefix lengths 0..32; <= 3 prefixes; <= 4 attributes per message, all orders; AS_PATH <= 3 segments of <= 3 AS; communities <= 2 entries'
ASSUMPTIONS = ['netaddr model for IPv4 text of symbolic values (ropes)']
BUDGET = {'quick': 300, 'thorough': 1200}


def ip_text(o):
    return '%s.%s.%s.%s' % (o[0], o[1], o[2], o[3])


def octs(vals):
    for v in vals:
        assume(0 <= v < 256)
    return list(vals)


def comm_ok(text, hi, lo):
    if text == '%s:%s' % (hi, lo):
        return True
    return isinstance(text, str) and WELL_KNOWN_COMMUNITIES.get(text.upper()) == hi * 65536 + lo


def build_attr(name, v, as4, ext):
    """(code, encoded attribute, checker(decoded) -> bool) for symbolic values v[0..]"""
    if name == 'origin':
        assume(0 <= v[0] <= 2)
        return 1, E.origin(v[0], ext=ext), (lambda d: d == v[0])
    if name == 'med':
        assume(0 <= v[0] < 2 ** 32)
        return 4, E.med(v[0], ext=ext), (lambda d: d == v[0])
    if name == 'localpref':
        assume(0 <= v[0] < 2 ** 32)
        return 5, E.local_pref(v[0], ext=ext), (lambda d: d == v[0])
    if name == 'atomic':
        return 6, E.atomic_aggregate(ext=ext), (lambda d: d == '')
    if name == 'nexthop':
        o = octs(v[:4])
        return 3, E.next_hop(o, ext=ext), (lambda d: d == ip_text(o))
    if name == 'originator':
        o = octs(v[:4])
        return 9, E.originator_id(o, ext=ext), (lambda d: d == ip_text(o))
    if name == 'cluster':
        o1, o2 = octs(v[:4]), [v[3], v[2], v[1], v[0]]
        return 10, E.cluster_list([o1, o2], ext=ext), (lambda d: same(d, [ip_text(o1), ip_text(o2)]))
    if name == 'aggregator':
        hi = 2 ** 32 if as4 else 2 ** 16
        assume(0 <= v[4] < hi)
        o = octs(v[:4])
        return 7, E.aggregator(v[4], o, as4, ext=ext), (lambda d: same(d, (v[4], ip_text(o))))
    if name == 'as4_aggregator':
        assume(0 <= v[4] < 2 ** 32)
        o = octs(v[:4])
        return 18, E.aggregator(v[4], o, True, code=18, ext=ext), (lambda d: same(d, (v[4], ip_text(o))))
    if name == 'aspath':
        hi = 2 ** 32 if as4 else 2 ** 16
        for x in v[:4]:
            assume(0 <= x < hi)
        segs = [(t, [v[i % 4] for i in range(k, k + n)]) for k, (t, n) in enumerate(P.get('segs', [(2, 2), (1, 1)]))]
        return 2, E.as_path(segs, as4, ext=ext), (lambda d: same(d, [(t, list(a)) for (t, a) in segs]))
    if name == 'as4_path':
        for x in v[:4]:
            assume(0 <= x < 2 ** 32)
        segs = [(2, [v[0], v[1]]), (1, [v[2]])]
        return 17, E.as_path(segs, True, code=17, ext=ext), (lambda d: same(d, [(t, list(a)) for (t, a) in segs]))
    if name == 'community':
        for x in v[:4]:
            assume(0 <= x < 65536)
        return 8, E.communities([(v[0], v[1]), (v[2], v[3])], ext=ext), \
            (lambda d: len(d) == 2 and comm_ok(d[0], v[0], v[1]) and comm_ok(d[1], v[2], v[3]))
    if name == 'largecomm':
        for x in v[:3]:
            assume(0 <= x < 2 ** 32)
        return 32, E.large_communities([(v[0], v[1], v[2])], ext=ext), (lambda d: same(d, ['%s:%s:%s' % (v[0], v[1], v[2])]))
    if name == 'extcomm-rt0':
        assume(0 <= v[0] < 65536 and 0 <= v[1] < 2 ** 32)
        it = [0x00, 0x02] + list(E.u16(v[0])) + list(E.u32(v[1]))
        return 16, E.ext_communities([it], ext=ext), (lambda d: same(d, ['route-target:%s:%s' % (v[0], v[1])]))
    if name == 'extcomm-rt1':
        o = octs(v[:4])
        assume(0 <= v[4] < 65536)
        it = [0x01, 0x02] + o + list(E.u16(v[4]))
        return 16, E.ext_communities([it], ext=ext), (lambda d: same(d, ['route-target:%s:%s' % (ip_text(o), v[4])]))
    if name == 'extcomm-color':
        assume(0 <= v[0] < 2 ** 32)
        it = [0x03, 0x0b, 0, 0] + list(E.u32(v[0]))
        return 16, E.ext_communities([it], ext=ext), (lambda d: same(d, ['color:%s' % v[0]]))
    raise AssertionError(name)


def ob_attrs(a: int, b: int, c: int, d: int, e: int) -> bool:
    """the attributes named in P (in P's order), each built from the symbolic values, optional ext-length flag"""
    from yabgp.message.update import Update
    as4 = P.get('as4', False)
    v = [a, b, c, d, e]
    blob, checks = b'', {}
    for i, name in enumerate(P['attrs']):
        vv = v[i:] + v[:i]      # rotate so that different attributes see different variables first
        code, enc, chk = build_attr(name, vv, as4, P.get('ext', False))
        blob += enc
        checks[code] = chk
    body = E.update_body(b'', blob, b'')
    out = Update.parse(None, body, as4, {})
    cover('parsed')
    if out['sub_error'] is not None or out['nlri'] != [] or out['withdraw'] != []:
        return False
    got = out['attr']
    if set(got.keys()) != set(checks.keys()):
        return False
    for code, chk in checks.items():
        if not chk(got[code]):
            return False
    return True


def ob_prefixes(a: int, b: int, c: int, d: int, pid: int) -> bool:
    """NLRI / withdrawn prefixes with arbitrary trailing bits (and add-path identifiers)"""
    from yabgp.message.update import Update
    o = octs([a, b, c, d])
    plens = P['plens']
    addpath = P.get('addpath', False)
    if addpath:
        assume(0 <= pid < 2 ** 32)
    enc, exp = b'', []
    for i, pl in enumerate(plens):
        oo = o[i % 4:] + o[:i % 4]
        enc += E.prefix(oo, pl, pid if addpath else None)
        t = E.masked_text(oo, pl)
        exp.append({'prefix': t, 'path_id': pid} if addpath else t)
    attrs = E.origin(0) + E.as_path([(2, [65001])], False) + E.next_hop([10, 0, 0, 1])
    if P.get('where') == 'both':
        # withdrawn routes, attributes and NLRI in the same UPDATE: the withdrawn list is the same prefixes rotated
        wenc, wexp = b'', []
        for i, pl in enumerate(plens):
            oo = o[(i + 2) % 4:] + o[:(i + 2) % 4]
            wenc += E.prefix(oo, pl, pid if addpath else None)
            t = E.masked_text(oo, pl)
            wexp.append({'prefix': t, 'path_id': pid} if addpath else t)
        out = Update.parse(None, E.update_body(wenc, attrs, enc), False, {'ipv4': True} if addpath else {})
        cover('parsed')
        return out['sub_error'] is None and same(out['withdraw'], wexp) and same(out['nlri'], exp) and \
            same(out['attr'], {1: 0, 2: [(2, [65001])], 3: '10.0.0.1'})
    if P.get('where') == 'withdraw':
        body = E.update_body(enc, b'', b'')
    else:
        body = E.update_body(b'', attrs, enc)
    out = Update.parse(None, body, False, {'ipv4': True} if addpath else {})
    cover('parsed')
    if out['sub_error'] is not None:
        return False
    if P.get('where') == 'withdraw':
        return same(out['withdraw'], exp) and out['nlri'] == [] and not out['attr']
    return same(out['nlri'], exp) and out['withdraw'] == [] and \
        same(out['attr'], {1: 0, 2: [(2, [65001])], 3: '10.0.0.1'})


def ob_malformed(a: int, b: int, c: int) -> bool:
    """the malformations the decoder checks are reported as an error, not as a value"""
    from yabgp.message.update import Update
    kind = P['kind']
    good = E.med(7)
    if kind == 'origin':
        assume(3 <= a < 256)
        bad, code = E.origin(a), 1
    elif kind == 'aspath-segtype':
        assume(0 <= a < 256 and not (1 <= a <= 4))
        assume(0 <= b < 65536)
        bad, code = E.as_path([(a, [b])], P.get('as4', False)), 2
    elif kind == 'fixed-length':
        code, n = P['code'], P['len']
        vals = octs([a, b, c] * 3)
        bad = E.attr(code, bytes(vals[:n]))
    elif kind == 'prefix-length':
        assume(33 <= a < 256)
        assume(0 <= b < 256)
        body = E.update_body(b'', E.origin(0) + E.next_hop([10, 0, 0, 1]), bytes([a, b, 0, 0, 0, 0]))
        out = Update.parse(None, body, False, {})
        cover('parsed')
        return out['sub_error'] is not None and out['nlri'] == []
    elif kind == 'withdraw-prefix-length':
        assume(33 <= a < 256)
        body = E.update_body(bytes([a, 10, 0, 0, 0]), b'', b'')
        out = Update.parse(None, body, False, {})
        cover('parsed')
        return out['sub_error'] is not None and out['withdraw'] == []
    else:
        raise AssertionError(kind)
    body = E.update_body(b'', (bad + good) if P.get('first', True) else (good + bad), b'')
    out = Update.parse(None, body, P.get('as4', False), {})
    cover('parsed')
    if out['sub_error'] is None:
        return False
    return code not in (out['attr'] or {})


def ob_session(a: int, b: int) -> bool:
    """the same distinction reaches the application: update_received vs on_update_error"""
    assume(0 <= a < 256 and 0 <= b < 2 ** 32)
    w = S.in_state(S.ESTABLISHED, hold=90, cfgd={'caps': dict(S.DEFAULT_CFG['caps'], four_bytes_as=False)})
    attrs = E.origin(a) + E.as_path([(2, [65002])], False) + E.next_hop([10, 0, 0, 2]) + E.med(b, ext=True)
    msg = S.frame(2, E.update_body(b'', attrs, E.prefix([10, 1, 255, 255], 17)))
    mark = w.mark()
    w.ev_data(msg)
    log = w.handler.log[mark['hlog']:]
    if len(log) != 1 or w.state != S.ESTABLISHED:
        return False
    if a <= 2:
        cover('good')
        return log[0][0] == 'update_received' and \
            same(log[0][1]['attr'], {1: a, 2: [(2, [65002])], 3: '10.0.0.2', 4: b}) and log[0][1]['nlri'] == ['10.1.128.0/17']
    cover('bad')
    return log[0][0] == 'on_update_error'


def _label3(label, bos=1):
    v = label * 16 + bos
    return bytes([v // 65536, (v // 256) % 256, v % 256])


V6 = {'2001:db8:1:2:3:4:5:6': '20010db8000100020003000400050006', 'ffff:ffff:ffff:ffff:ffff:ffff:ffff:ffff': 'ff' * 16,
      '::': '00' * 16}


def _v6_text(addr_hex, plen):
    import ipaddress
    v = int(addr_hex, 16)
    k = 2 ** (128 - plen)
    return '%s/%d' % (ipaddress.IPv6Address((v // k) * k).compressed, plen)


def _masked(oo, plen):
    """the ceil(plen/8) octets of a prefix with the bits after plen cleared (for the MP families the statement does not
    ask for non-zero trailing bits; only the IPv4 unicast fields are exercised with them, see ob_prefixes)"""
    n = (plen + 7) // 8
    out = list(oo[:n])
    if plen % 8:
        k = 2 ** (8 - plen % 8)
        out[-1] = (out[-1] // k) * k
    return out


def ob_mp(l1: int, ra: int, rb: int, x: int, y: int, z: int) -> bool:
    """MP_REACH_NLRI / MP_UNREACH_NLRI written by the reference encoder (RFC 4760 / 8277 / 4364): family, number of
    routes (0 = none at all; MP_UNREACH with none is the End-of-RIB marker), extended-length flag, trailing bits."""
    from yabgp.message.update import Update
    fam, n, reach = P['family'], P['n'], P['dir'] == 'reach'
    assume(1 <= l1 < 2 ** 20 and 0 <= ra < 65536 and 0 <= rb < 2 ** 32)
    o = octs([x, y, z]) + [1]
    routes, texts = b'', []
    addpath = P.get('addpath', False)
    for i in range(n):
        plen = P['plens'][i]
        oo = [o[(j + i) % 4] for j in range(4)]
        if addpath:
            # RFC 7911: a 4-octet path identifier in front of every route (ra + i: symbolic, includes 0)
            routes += E.u32(ra + i)
        if fam == 'ipv6':
            hx = list(V6.values())[i % len(V6)]
            routes += bytes([plen]) + bytes(_masked(list(bytes.fromhex(hx)), plen))
            texts.append({'prefix': _v6_text(hx, plen), 'path_id': ra + i} if addpath else _v6_text(hx, plen))
        elif fam == 'lu4':
            lab = _label3(l1 + i) if reach else bytes([0x80, 0, 0])
            routes += bytes([24 + plen]) + lab + bytes(_masked(oo, plen))
            texts.append({'prefix': E.masked_text(oo, plen), 'label': [l1 + i] if reach else [524288]})
        elif fam == 'vpnv4':
            lab = _label3(l1 + i) if reach else bytes([0x80, 0, 0])
            routes += bytes([88 + plen]) + lab + bytes([0, 0]) + E.u16(ra) + E.u32(rb) + bytes(_masked(oo, plen))
            texts.append({'label': [l1 + i] if reach else [524288], 'rd': '%s:%s' % (ra, rb),
                          'prefix': E.masked_text(oo, plen)})
        else:
            raise AssertionError(fam)
    afi, safi = {'ipv6': (2, 1), 'lu4': (1, 4), 'vpnv4': (1, 128), 'vpnv6': (2, 128), 'evpn': (25, 70),
                 'flowspec': (1, 133)}[fam]
    if reach:
        if fam == 'ipv6':
            nh, nh_exp = bytes.fromhex('20010db8000000000000000000000001'), '2001:db8::1'
        elif fam in ('vpnv4',):
            nh, nh_exp = bytes(8) + bytes([10, 0, 0, 9]), {'rd': '0:0', 'str': '10.0.0.9'}
        elif fam == 'vpnv6':
            nh, nh_exp = bytes(8) + bytes.fromhex('20010db8000000000000000000000009'), {'rd': '0:0', 'str': '2001:db8::9'}
        elif fam == 'flowspec':
            nh, nh_exp = b'', ''
        else:
            nh, nh_exp = bytes([10, 0, 0, 9]), '10.0.0.9'
        value = E.u16(afi) + bytes([safi, len(nh)]) + nh + bytes([0]) + routes
        blob = E.attr(14, value, ext=P.get('ext', False))
    else:
        value = E.u16(afi) + bytes([safi]) + routes
        blob = E.attr(15, value, ext=P.get('ext', False))
    blob = E.origin(0) + blob + E.med(rb)
    out = Update.parse(None, E.update_body(b'', blob, b''), True, {'ipv6': True} if addpath else {})
    cover('parsed')
    if out['sub_error'] is not None or set(out['attr'].keys()) != {1, 4, 14 if reach else 15}:
        return False
    got = out['attr'][14 if reach else 15]
    if tuple(got['afi_safi']) != (afi, safi) or out['attr'][4] != rb:
        return False
    if reach:
        if P.get('check_nh', True) and not same(got['nexthop'], nh_exp):
            return False
        return same(got['nlri'], texts)
    return same(got['withdraw'], texts)


def ob_empty_update(x: int) -> bool:
    """the UPDATE with nothing in it (RFC 4724 End-of-RIB marker for IPv4 unicast): a result without error and without routes"""
    from yabgp.message.update import Update
    out = Update.parse(None, E.update_body(b'', b'', b''), P['as4'], {'ipv4': True} if P['addpath'] else {})
    cover('parsed')
    return out['sub_error'] is None and out['withdraw'] == [] and out['nlri'] == [] and (out['attr'] or {}) == {}


def obligations(tier, seed):
    quick = tier == 'quick'
    out = []
    names = ['origin', 'med', 'localpref', 'atomic', 'nexthop', 'originator', 'cluster', 'aggregator', 'as4_aggregator',
             'aspath', 'as4_path', 'community', 'largecomm', 'extcomm-rt0', 'extcomm-rt1', 'extcomm-color']
    for nm in names:
        for ext in (False, True):
            for as4 in ((False, True) if nm in ('aggregator', 'aspath') else (False,)):
                out.append(ob('C09/attr/%s/ext=%s/as4=%s' % (nm, ext, as4), 'ob_attrs', {'attrs': [nm], 'ext': ext, 'as4': as4},
                              covers=['parsed']))
    for segs in ([(1, 1)], [(2, 3)], [(3, 1), (4, 2)], [(2, 1), (1, 1), (2, 1)], [(2, 0)], []):
        for as4 in (False, True):
            out.append(ob('C09/aspath/segs=%s/as4=%s' % ('-'.join('%d.%d' % s for s in segs) or 'none', as4), 'ob_attrs',
                          {'attrs': ['aspath'], 'segs': segs, 'as4': as4}, covers=['parsed']))
    # attribute order: all permutations of groups of 3 (quick) / 4 (thorough)
    groups = [['origin', 'aspath', 'nexthop'], ['med', 'localpref', 'community'], ['aggregator', 'atomic', 'largecomm'],
              ['as4_path', 'aspath', 'aggregator']]
    if not quick:
        groups = [['origin', 'aspath', 'nexthop', 'med'], ['localpref', 'community', 'aggregator', 'atomic'],
                  ['originator', 'cluster', 'extcomm-rt0', 'largecomm'], ['as4_path', 'as4_aggregator', 'aspath', 'origin']]
    for g in groups:
        for pm in itertools.permutations(g):
            out.append(ob('C09/order/%s' % '-'.join(pm), 'ob_attrs', {'attrs': list(pm), 'ext': False}, covers=['parsed'],
                          cap=120 if quick else 400))
    out.append(ob('C09/order/all-ext', 'ob_attrs', {'attrs': ['nexthop', 'origin', 'med', 'aspath'], 'ext': True}, covers=['parsed']))
    # prefixes with trailing bits
    for pl in range(0, 33):
        for where in ('nlri', 'withdraw'):
            if quick and where == 'withdraw' and pl % 4 != 1:
                continue
            out.append(ob('C09/prefix/%s/plen=%d' % (where, pl), 'ob_prefixes', {'plens': [pl], 'where': where}, covers=['parsed']))
    for pls in ([0, 32], [7, 9, 17], [32, 1, 0], [24, 24, 25]):
        out.append(ob('C09/prefix/list=%s' % '-'.join(map(str, pls)), 'ob_prefixes', {'plens': pls, 'where': 'nlri'}, covers=['parsed']))
    for pls in ([24], [0, 9], [17, 32]):
        out.append(ob('C09/prefix/both-fields/list=%s' % '-'.join(map(str, pls)), 'ob_prefixes', {'plens': pls, 'where': 'both'},
                      covers=['parsed']))
        out.append(ob('C09/addpath/both-fields/list=%s' % '-'.join(map(str, pls)), 'ob_prefixes',
                      {'plens': pls, 'where': 'both', 'addpath': True}, covers=['parsed']))
    for pls in ([24], [0], [17, 32], [9, 1, 30]):
        for where in ('nlri', 'withdraw'):
            out.append(ob('C09/addpath/%s/list=%s' % (where, '-'.join(map(str, pls))), 'ob_prefixes',
                          {'plens': pls, 'where': where, 'addpath': True}, covers=['parsed']))
    # error half
    for first in (True, False):
        out.append(ob('C09/malformed/origin/first=%s' % first, 'ob_malformed', {'kind': 'origin', 'first': first}, covers=['parsed']))
        for as4 in (False, True):
            out.append(ob('C09/malformed/aspath-segtype/as4=%s/first=%s' % (as4, first), 'ob_malformed',
                          {'kind': 'aspath-segtype', 'as4': as4, 'first': first}, covers=['parsed']))
    for code, lens in ((3, (3, 5)), (4, (3, 5)), (5, (0, 3, 5)), (9, (3, 5)), (10, (3, 5)), (7, (5, 7, 8)), (16, (7, 9)), (6, (1,))):
        for n in lens:
            out.append(ob('C09/malformed/fixed-length/code=%d/len=%d' % (code, n), 'ob_malformed',
                          {'kind': 'fixed-length', 'code': code, 'len': n}, covers=['parsed']))
    out.append(ob('C09/malformed/prefix-length', 'ob_malformed', {'kind': 'prefix-length'}, covers=['parsed']))
    out.append(ob('C09/malformed/withdraw-prefix-length', 'ob_malformed', {'kind': 'withdraw-prefix-length'}, covers=['parsed']))
    # the C07 families through the reference encoder: 0, 1 or 2 routes, both directions, extended-length flag
    for fam in ('ipv6', 'lu4', 'vpnv4'):
        for d in ('reach', 'unreach'):
            if fam == 'lu4' and d == 'unreach':
                continue      # not decoded at all: the open C07 finding labeled-unicast-mp-unreach-not-decoded
            for plens in ([], [0], [24], [9, 32] if fam != 'ipv6' else [60, 128]):
                if fam == 'ipv6' and plens == [24]:
                    plens = [64]
                for ext in ((False, True) if (not quick or len(plens) == 1) else (False,)):
                    out.append(ob('C09/mp/%s/%s/plens=%s/ext=%s' % (fam, d, '-'.join(map(str, plens)) or 'none', ext), 'ob_mp',
                                  {'family': fam, 'dir': d, 'n': len(plens), 'plens': plens, 'ext': ext}, covers=['parsed'],
                                  cap=150 if quick else 400))
    for d in ('reach', 'unreach'):
        for plens in ([64], [60, 128]):
            out.append(ob('C09/mp/ipv6/%s/plens=%s/add-path' % (d, '-'.join(map(str, plens))), 'ob_mp',
                          {'family': 'ipv6', 'dir': d, 'n': len(plens), 'plens': plens, 'addpath': True}, covers=['parsed'],
                          cap=150 if quick else 400))
    for fam in ('vpnv6', 'evpn', 'flowspec'):
        for d in ('reach', 'unreach'):
            out.append(ob('C09/mp/%s/%s/plens=none' % (fam, d), 'ob_mp', {'family': fam, 'dir': d, 'n': 0, 'plens': []},
                          covers=['parsed']))
    for as4 in (False, True):
        for ap in (False, True):
            out.append(ob('C09/empty-update/as4=%s/addpath=%s' % (as4, ap), 'ob_empty_update', {'as4': as4, 'addpath': ap},
                          covers=['parsed']))
    out.append(ob('C09/session/update-vs-error', 'ob_session', {}, covers=['good', 'bad']))
    return out
