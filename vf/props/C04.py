"""C04 - byte-stream framing: independent of TCP segmentation, equal to a reference
RFC 4271 deframer, always terminates.

Streams are  frame1 || frame2 || tail  where frame1's header fields (one marker
octet, the 16-bit length field, the type octet) are symbolic, delivered to the
real BGP.dataReceived of a session placed in Established (or another state).
"""
import struct

from vf.props.common import assume, cover, ob
from vf import session as S
from vf.loader import FUEL

CLAIMED = True
P = {}
LEVEL_TEXT = ('Bounded symbolic verification of BGP.dataReceived/parse_buffer on the real protocol object: the length field '
              '(all 65536 values), type octet (all 256) and a marker octet of the first frame are solver variables; obligations '
              'decide (1) progress/termination under loop fuel, (2) agreement of the reaction with a reference RFC 4271 deframer, '
              '(3) equality of all observables between whole, 1-cut, 2-cut and byte-at-a-time delivery.')
LEVEL_NOTE = ('Twisted is modelled (vf/env/twisted_stub.py): after loseConnection no further data is delivered. Streams <= 3 frames, '
              '<= 80 octets; cut positions are enumerated shapes (all positions in thorough), header fields symbolic.')
LEVEL_ADDED = 'Also (quick tier): two-cut shapes where the first message is split after its header and the completing segment carries the beginning of the next message. 300 messages in one segment followed by a header with symbolic fields.'
TECHNIQUE = 'symbolic execution of BGP.dataReceived/parse_buffer (CrossHair+z3) with symbolic header fields; reference-deframer oracle; segmentation equivalence'
EXPLANATION = 'C04: framing obligations on the real BGP protocol object with symbolic header fields.'
BOUNDS = 'streams of <= 3 frames / <= 80 octets; length field 0..65535 and type 0..255 symbolic; cuts enumerated'
ASSUMPTIONS = ['Twisted delivers no data after transport.loseConnection() (stopReading) - modelled',
               'the reaction to a well-framed message of known type is compared only for reference-encoded bodies']
BUDGET = {'quick': 300, 'thorough': 3000}

KNOWN_TYPES = (1, 2, 3, 4, 5, 128)


def bodies(kind):
    if kind == 'keepalive':
        return 4, b''
    if kind == 'update':
        return 2, struct.pack('!HH', 0, 0)
    if kind == 'notification':
        return 3, bytes([6, 2])
    if kind == 'rr':
        return 5, struct.pack('!HBB', 1, 0, 1)
    if kind == 'rr128':
        return 128, struct.pack('!HBB', 1, 0, 1)
    if kind == 'open':
        return 1, struct.pack('!BHHIB', 4, 65002, 90, 0x0A000002, 0)
    raise AssertionError(kind)


def header(m, length, typ):
    return b'\xff' * 15 + bytes([m]) + bytes([length // 256, length % 256, typ])


def observe(w, mark):
    """what an outside observer sees of the reaction"""
    cbs = [h[0] for h in w.handler.log[mark['hlog']:]]
    wire = b''.join(d for (_t, _time, d) in w.wire(mark['wire']))
    return (cbs, wire, len(w.reactor.lose_log) - mark['lose'], w.state,
            len(w.reactor.connectors) - mark['conn'])


def deliver(w, stream, cuts):
    """deliver stream in segments; the environment stops delivering once the agent closed"""
    pos = 0
    c = w._connected()
    for cut in list(cuts) + [len(stream)]:
        if cut <= pos:
            continue
        if c.transport.disconnecting or not c.transport.connected:
            break
        FUEL.reset(len(stream) + 4)
        c.protocol.dataReceived(stream[pos:cut])
        pos = cut


def fresh(state):
    return S.in_state(state, hold=P.get('hold', 0))


def ob_progress(m: int, length: int, typ: int) -> bool:
    """one parse_buffer call: returning True implies the buffer shrank by >= 19 octets (ranking function)."""
    assume(0 <= m < 256 and 0 <= length < 65536 and 0 <= typ < 256)
    if P.get('typ') is not None:
        assume(typ == P['typ'])
    else:
        assume(typ != 1 and typ != 2 and typ != 3 and typ != 4 and typ != 5 and typ != 128)
    w = fresh(P.get('state', S.ESTABLISHED))
    p = w.protocol()
    buf = header(m, length, typ) + bytes(P['extra'])
    p._receive_buffer = buf
    before = len(buf)
    FUEL.reset(before + 4)
    r = p.parse_buffer()
    after = len(p._receive_buffer)
    if r:
        cover('consumed')
        return after <= before - 19
    cover('stopped')
    return after <= before


def ob_reference(m: int, length: int, typ: int) -> bool:
    """whole delivery of frame1(sym header, reference body) || KEEPALIVE || tail vs the reference deframer."""
    assume(0 <= m < 256 and 0 <= length < 65536 and 0 <= typ < 256)
    kind = P['kind']
    t1, body = bodies(kind) if kind != 'unknown' else (None, b'')
    if t1 is None:
        assume(typ != 1 and typ != 2 and typ != 3 and typ != 4 and typ != 5 and typ != 128)
    else:
        assume(typ == t1)
    stream = header(m, length, typ) + body + S.KEEPALIVE + bytes(P.get('tail', []))
    n = len(stream)
    w = fresh(S.ESTABLISHED)
    mark = w.mark()
    deliver(w, stream, [])
    cbs, wire, lost, state, newconn = observe(w, mark)
    notes = S.split_types(wire)
    if m != 255:
        cover('bad-marker')
        return cbs == [] and notes == [(3, 1, 1)] and lost == 1 and state == S.IDLE
    if length < 19 or length > 4096:
        cover('bad-length')
        return cbs == [] and notes == [(3, 1, 2)] and lost == 1 and state == S.IDLE and \
            wire[21:23] == bytes([length // 256, length % 256])
    if length > n:
        cover('incomplete')
        return cbs == [] and wire == b'' and lost == 0 and state == S.ESTABLISHED
    if t1 is None:
        cover('bad-type')
        return cbs == [] and notes == [(3, 1, 3)] and lost == 1 and state == S.IDLE
    if length != 19 + len(body):
        # a well-framed message whose length field disagrees with the reference body: only containment is required
        cover('resync')
        return len([c for c in cbs if c != 'keepalive_received']) <= 1 and lost <= 1
    cover('exact')
    if kind == 'keepalive':
        return cbs == ['keepalive_received', 'keepalive_received'] and wire == b'' and lost == 0 and state == S.ESTABLISHED
    if kind == 'update':
        return cbs == ['update_received', 'keepalive_received'] and wire == b'' and lost == 0 and state == S.ESTABLISHED
    if kind in ('rr', 'rr128'):
        return cbs == ['route_refresh_received', 'keepalive_received'] and wire == b'' and lost == 0 and \
            state == S.ESTABLISHED
    if kind == 'notification':
        # the peer closes the session: nothing after it may be processed
        return cbs == ['notification_received'] and wire == b'' and lost == 1 and state == S.IDLE
    if kind == 'open':
        # FSM error in Established; reporting the decoded OPEN to the application is allowed (C10: at most one report)
        return cbs in ([], ['open_received']) and notes == [(3, 5, 0)] and lost == 1 and state == S.IDLE
    raise AssertionError(kind)


def ob_segment(m: int, length: int, typ: int) -> bool:
    """same stream: whole vs the concrete segmentation P['cuts'] -> identical observables."""
    assume(0 <= m < 256 and 0 <= length < 65536 and 0 <= typ < 256)
    kind = P['kind']
    t1, body = bodies(kind) if kind != 'unknown' else (None, b'')
    if t1 is None:
        assume(typ != 1 and typ != 2 and typ != 3 and typ != 4 and typ != 5 and typ != 128)
    else:
        assume(typ == t1)
    if P.get('marker_ok'):
        assume(m == 255)
    k2, body2 = bodies(P.get('second', 'keepalive'))
    stream = header(m, length, typ) + body + S.frame(k2, body2) + bytes(P.get('tail', []))
    n = len(stream)
    cuts = P['cuts']
    if cuts == 'bytewise':
        cuts = list(range(1, n))
    w1 = fresh(P.get('state', S.ESTABLISHED))
    mark1 = w1.mark()
    deliver(w1, stream, [])
    o1 = observe(w1, mark1)
    w2 = fresh(P.get('state', S.ESTABLISHED))
    mark2 = w2.mark()
    deliver(w2, stream, cuts)
    o2 = observe(w2, mark2)
    cover('compared')
    return o1 == o2


def ob_many(m: int, length: int, typ: int) -> bool:
    """a long segment: n KEEPALIVEs followed by one header with symbolic fields - every message is extracted in that one
    call (nothing waits for more bytes to arrive) and the last header gets the reaction it would get alone"""
    assume(0 <= m < 256 and 0 <= length < 65536 and 0 <= typ < 256)
    n = P['n']
    last = header(m, length, typ)
    w1 = fresh(S.ESTABLISHED)
    mark1 = w1.mark()
    FUEL.reset(3 * n + 40)
    w1._connected().protocol.dataReceived(S.KEEPALIVE * n + last)
    o1 = observe(w1, mark1)
    w2 = fresh(S.ESTABLISHED)
    mark2 = w2.mark()
    FUEL.reset(40)
    w2._connected().protocol.dataReceived(last)
    o2 = observe(w2, mark2)
    cover('compared')
    return o1[0] == ['keepalive_received'] * n + o2[0] and o1[1:] == o2[1:]


def ob_terminates(m: int, length: int, typ: int) -> bool:
    """dataReceived returns (loop fuel = unwinding assertion) for any header on a short stream, any state."""
    assume(0 <= m < 256 and 0 <= length < 65536 and 0 <= typ < 256)
    if P.get('typ') is not None:
        assume(typ == P['typ'])
    else:
        assume(typ != 1 and typ != 2 and typ != 3 and typ != 4 and typ != 5 and typ != 128)
    w = fresh(P.get('state', S.ESTABLISHED))
    stream = header(m, length, typ) + bytes(P['extra'])
    FUEL.reset(len(stream) + 4)
    w.protocol().dataReceived(stream)
    cover('returned')
    return True


def obligations(tier, seed):
    quick = tier == 'quick'
    out = []
    kinds = ['keepalive', 'update', 'notification', 'rr', 'rr128', 'open', 'unknown']
    types = [1, 2, 3, 4, 5, 128, None]
    for typ in types:
        for extra in ([[], [0] * 4] if quick else [[], [0], [0] * 4, [255] * 19, [0] * 30]):
            out.append(ob('C04/progress/typ=%s/extra=%d' % (typ, len(extra)), 'ob_progress',
                          {'typ': typ, 'extra': extra}, covers=['stopped']))
            for st in ([S.ESTABLISHED] if quick else [S.OPENSENT, S.OPENCONFIRM, S.ESTABLISHED]):
                out.append(ob('C04/terminates/typ=%s/extra=%d/state=%d' % (typ, len(extra), st), 'ob_terminates',
                              {'typ': typ, 'extra': extra, 'state': st}, covers=['returned']))
    for kind in kinds:
        for tail in ([[]] if quick else [[], [255] * 5, [255] * 16 + [0, 19]]):
            out.append(ob('C04/reference/%s/tail=%d' % (kind, len(tail)), 'ob_reference', {'kind': kind, 'tail': tail},
                          covers=['bad-marker', 'bad-length', 'incomplete'], cap=120 if quick else 400))
    # segmentation: cut positions as shapes
    for kind in kinds:
        _t, body = bodies(kind) if kind != 'unknown' else (None, b'')
        n = 19 + len(body) + 19
        if quick:
            cutsets = [[1], [16], [17], [18], [19], [19 + len(body)], [n - 1], [18, 19], [16, 20], 'bytewise']
            if body:
                # first message split after its header, the segment that completes it also carries the beginning
                # (less than a header / exactly a header) of the next one
                m1 = 19 + len(body)
                cutsets += [[19 + (len(body) + 1) // 2, m1 + 5], [m1 - 1, m1 + 18], [20, m1 + 1], [m1 - 1, m1 + 19]]
        else:
            cutsets = [[c] for c in range(1, n)] + [[a, b] for a in range(1, n) for b in range(a + 1, n)
                                                    if (a in (1, 15, 16, 17, 18, 19, 20) or b in (18, 19, 20, n - 1))] + ['bytewise']
        seen = set()
        for cs in cutsets:
            key = str(cs)
            if key in seen:
                continue
            seen.add(key)
            out.append(ob('C04/segment/%s/cuts=%s' % (kind, 'bytewise' if cs == 'bytewise' else '-'.join(map(str, cs))),
                          'ob_segment', {'kind': kind, 'cuts': cs}, covers=['compared'], cap=150 if quick else 400))
    for n in ((300,) if quick else (255, 256, 257, 300, 1000)):
        out.append(ob('C04/many-messages/n=%d' % n, 'ob_many', {'n': n}, covers=['compared'], cap=250 if quick else 600))
    if not quick:
        for kind in ('keepalive', 'update'):
            for st in (S.OPENSENT, S.OPENCONFIRM):
                out.append(ob('C04/segment/%s/state=%d/bytewise' % (kind, st), 'ob_segment',
                              {'kind': kind, 'cuts': 'bytewise', 'state': st}, covers=['compared'], cap=400))
    return out
