"""C11 - every decoder terminates on every input; UPDATE decoding never raises."""
import struct

from vf.props.common import assume, cover, ob
from vf.loader import FUEL

CLAIMED = True
P = {}
LEVEL_TEXT = ('Bounded symbolic verification: every decoder entry point (UPDATE, each attribute / NLRI decoder, every registered '
              'BGP-LS TLV decoder with every sub-length 0..16, Prefix-SID, BGP-LS NLRI, OPEN + capabilities, NOTIFICATION, '
              'ROUTE-REFRESH, KEEPALIVE) is executed on a byte string whose octets are all solver variables (length enumerated), '
              'with loop fuel on every `while` of yabgp compiled in at import time (unwinding assertion: a loop that can spin is a '
              'refuted obligation with a concrete input, confirmed by a CPU-limited replay); Update.parse with in-range length fields '
              'must return a result object on every path.')
LEVEL_NOTE = ('Input length bounded (<= 5 octets quick, <= 8 thorough for leaf decoders; TLV bodies <= 16): inputs up to 4096 octets are '
              'outside the bound; the per-loop progress (every iteration consumes >= 1 octet) is what is decided. Error-message text cut.')
LEVEL_ADDED = 'Also: sub-TLV carrying BGP-LS TLVs with 6..60 sibling sub-TLVs / chains nested that deep under a fuel linear in the number of TLVs. OPEN capability values made of a repeated 4-octet tuple. OPEN with a symbolic optional-parameter header (type, length).'
TECHNIQUE = 'symbolic execution of each decoder on all-symbolic octets with loop-fuel unwinding assertions (CrossHair+z3), CPU-limited replay of non-termination'
EXPLANATION = 'C11: all-symbolic short inputs per decoder under loop fuel.'
BOUNDS = 'leaf decoders: every length 0..5 (quick) / 0..7 (thorough, less for the decoders whose path count explodes: see tmax); 57 BGP-LS TLV types x sub-length 0..16; Update.parse structured bodies'
ASSUMPTIONS = ['loop fuel 2*len+8 iterations per loop site is the unwinding bound', 'inputs longer than the stated octet bounds are not covered']
BUDGET = {'quick': 330, 'thorough': 4800}


def _decoders():
    from yabgp.message.update import Update
    from yabgp.message.open import Open, Capability
    from yabgp.message.notification import Notification
    from yabgp.message.route_refresh import RouteRefresh
    from yabgp.message.keepalive import KeepAlive
    from yabgp.message.attribute.origin import Origin
    from yabgp.message.attribute.aspath import ASPath
    from yabgp.message.attribute.nexthop import NextHop
    from yabgp.message.attribute.med import MED
    from yabgp.message.attribute.localpref import LocalPreference
    from yabgp.message.attribute.atomicaggregate import AtomicAggregate
    from yabgp.message.attribute.aggregator import Aggregator
    from yabgp.message.attribute.community import Community
    from yabgp.message.attribute.originatorid import OriginatorID
    from yabgp.message.attribute.clusterlist import ClusterList
    from yabgp.message.attribute.extcommunity import ExtCommunity
    from yabgp.message.attribute.largecommunity import LargeCommunity
    from yabgp.message.attribute.pmsitunnel import PMSITunnel
    from yabgp.message.attribute.mpreachnlri import MpReachNLRI
    from yabgp.message.attribute.mpunreachnlri import MpUnReachNLRI
    from yabgp.message.attribute.sr.bgpprefixsid import BGPPrefixSID
    from yabgp.message.attribute.linkstate.linkstate import LinkState
    from yabgp.message.attribute.nlri.ipv4_unicast import IPv4Unicast
    from yabgp.message.attribute.nlri.ipv6_unicast import IPv6Unicast
    from yabgp.message.attribute.nlri.ipv4_mpls_vpn import IPv4MPLSVPN
    from yabgp.message.attribute.nlri.ipv6_mpls_vpn import IPv6MPLSVPN
    from yabgp.message.attribute.nlri.labeled_unicast.ipv4 import IPv4LabeledUnicast
    from yabgp.message.attribute.nlri.labeled_unicast.ipv6 import IPv6LabeledUnicast
    from yabgp.message.attribute.nlri.evpn import EVPN
    from yabgp.message.attribute.nlri.ipv4_flowspec import IPv4FlowSpec
    from yabgp.message.attribute.nlri.linkstate import BGPLS
    d = {
        'update': lambda b: Update.parse(None, b, False, {}),
        'update-as4': lambda b: Update.parse(None, b, True, {}),
        'update-addpath': lambda b: Update.parse(None, b, True, {'ipv4': True}),
        'prefix-list': lambda b: Update.parse_prefix_list(b),
        'prefix-list-addpath': lambda b: Update.parse_prefix_list(b, True),
        'attributes': lambda b: Update.parse_attributes(b, False, {}),
        'open': lambda b: Open().parse(b),
        'capability': lambda b: Capability().parse(b),
        'notification': lambda b: Notification().parse(b),
        'route-refresh': lambda b: RouteRefresh().parse(b),
        'keepalive': lambda b: KeepAlive().parse(b),
        'origin': lambda b: Origin.parse(b),
        'aspath': lambda b: ASPath.parse(b, False),
        'aspath-as4': lambda b: ASPath.parse(b, True),
        'nexthop': lambda b: NextHop.parse(b),
        'med': lambda b: MED.parse(b),
        'localpref': lambda b: LocalPreference.parse(b),
        'atomicaggregate': lambda b: AtomicAggregate.parse(b),
        'aggregator': lambda b: Aggregator.parse(b, False),
        'aggregator-as4': lambda b: Aggregator.parse(b, True),
        'community': lambda b: Community.parse(b),
        'originatorid': lambda b: OriginatorID.parse(b),
        'clusterlist': lambda b: ClusterList.parse(b),
        'extcommunity': lambda b: ExtCommunity.parse(b),
        'largecommunity': lambda b: LargeCommunity.parse(b),
        'pmsitunnel': lambda b: PMSITunnel.parse(b),
        'mpreach': lambda b: MpReachNLRI.parse(b, {}),
        'mpunreach': lambda b: MpUnReachNLRI.parse(b, {}),
        'prefixsid': lambda b: BGPPrefixSID.unpack(b),
        'linkstate-attr': lambda b: LinkState.unpack(b, 1),
        'nlri-ipv4': lambda b: IPv4Unicast.parse(b),
        'nlri-ipv6': lambda b: IPv6Unicast.parse(b),
        'nlri-vpnv4': lambda b: IPv4MPLSVPN.parse(b),
        'nlri-vpnv6': lambda b: IPv6MPLSVPN.parse(b),
        'nlri-lu4': lambda b: IPv4LabeledUnicast.parse(b),
        'nlri-lu6': lambda b: IPv6LabeledUnicast.parse(b),
        'nlri-evpn': lambda b: EVPN.parse(b),
        'nlri-flowspec4': lambda b: IPv4FlowSpec.parse(b),
        'nlri-bgpls': lambda b: BGPLS.parse(b),
    }
    return d


# MP_REACH / MP_UNREACH with the family fixed so that short symbolic tails reach the per-family NLRI loops
MP_FAMILIES = [(1, 1), (1, 4), (1, 128), (1, 133), (1, 73), (2, 1), (2, 4), (2, 128), (2, 133), (25, 70), (16388, 71), (16388, 72)]

DEC = None
FLOAT_TLVS = (1089, 1090, 1091, 1098)   # 1098: binascii.b2a_uu, also C code


def _dec(name):
    global DEC
    if DEC is None:
        DEC = _decoders()
    return DEC[name]


def _bytes(vals, n):
    v = list(vals[:n])
    for x in v:
        assume(0 <= x < 256)
    return bytes(v)


def ob_leaf(b0: int, b1: int, b2: int, b3: int, b4: int, b5: int, b6: int, b7: int) -> bool:
    """decoder on all-symbolic octets: returns or raises an ordinary exception - never spins"""
    n = P['n']
    data = bytes(P.get('prefix', [])) + _bytes([b0, b1, b2, b3, b4, b5, b6, b7], n) + bytes(P.get('suffix', []))
    f = _dec(P['dec'])
    FUEL.reset(2 * len(data) + 8)
    try:
        r = f(data)
    except Exception:
        cover('raised')
        if P.get('never_raises'):
            return False
        return True
    cover('returned')
    if P.get('dict_result'):
        return isinstance(r, dict) and 'attr' in r and 'nlri' in r and 'withdraw' in r and 'sub_error' in r
    return True


def ob_update_inrange(b0: int, b1: int, b2: int, b3: int, b4: int, b5: int, b6: int, b7: int) -> bool:
    """UPDATE body whose two length fields are in range always yields a result object"""
    from yabgp.message.update import Update
    wl, al, nl = P['wlen'], P['alen'], P['nlen']
    body = _bytes([b0, b1, b2, b3, b4, b5, b6, b7], wl + al + nl)
    if P.get('code') is not None and al >= 2:
        # the attribute type code is a dictionary key in parse_attributes: enumerated, not symbolic
        body = body[:wl + 1] + bytes([P['code']]) + body[wl + 2:]
    msg = struct.pack('!H', wl) + body[:wl] + struct.pack('!H', al) + body[wl:wl + al] + body[wl + al:]
    FUEL.reset(2 * len(msg) + 8)
    r = Update.parse(None, msg, P.get('asn4', False), {})
    cover('returned')
    return isinstance(r, dict) and 'sub_error' in r and 'attr' in r


def ob_nested(b0: int, b1: int, b2: int, b3: int) -> bool:
    """BGP-LS attribute TLVs that carry sub-TLVs (SRv6 End.X SID 1106, SRv6 Locator 1162): k sibling sub-TLVs, or a
    chain nested k deep, must cost work linear in the input length (loop fuel = 2 * length + 8), not more."""
    from yabgp.message.attribute.linkstate.linkstate import LinkState
    k, form, outer = P['k'], P['form'], P['outer']
    v = _bytes([b0, b1, b2, b3], 4)

    def tlv(t, body):
        return struct.pack('!HH', t, len(body)) + body
    fixed1106 = bytes([0, 5]) + v[0:1] + bytes([0, 0, 0]) + bytes(14) + v[1:3]
    if form == 'siblings':
        inner = b''.join(tlv(1106, fixed1106) for _ in range(k))
    else:
        inner = b''
        for _ in range(k):
            inner = tlv(1106, fixed1106 + inner)
    if outer == 1106:
        data = tlv(1106, fixed1106 + inner)
    else:
        data = tlv(1162, v[3:4] + bytes([0, 0, 0, 0, 0, 0, 10]) + inner)
    # one loop iteration per TLV and sub-TLV is what the input contains (k + 2 headers); a small constant factor on top
    FUEL.reset(4 * k + 16)
    try:
        LinkState.unpack(data, 1)
    except Exception:
        cover('raised')
        return True
    cover('returned')
    return True


def ob_tlv(b0: int, b1: int, b2: int, b3: int, b4: int, b5: int, b6: int, b7: int) -> bool:
    """one registered link-state TLV of sub-length n inside a link-state attribute; the first
    octets symbolic, the rest of the body from a fixed pattern"""
    from yabgp.message.attribute.linkstate.linkstate import LinkState
    n, t = P['n'], P['type']
    ns = min(n, P.get('nsym', 8))
    if t in FLOAT_TLVS:
        ns = 0       # IEEE floats / uuencode cross into C code: body concretised (DESIGN 2.2 "P")
    body = _bytes([b0, b1, b2, b3, b4, b5, b6, b7], ns) + bytes(P.get('fill', [0, 3, 0, 0, 1, 0, 4, 9])[:n - ns])
    data = struct.pack('!HH', t, n) + body
    FUEL.reset(2 * len(data) + 8)
    try:
        LinkState.unpack(data, P.get('proto', 1))
    except Exception:
        cover('raised')
        return True
    cover('returned')
    return True


def obligations(tier, seed):
    quick = tier == 'quick'
    from vf import loader
    loader.install(symbolic=False)
    from yabgp.message.attribute.linkstate.linkstate import LinkState
    import yabgp.message.update  # noqa: F401 (registers all TLVs)
    out = []
    names = sorted(_decoders().keys())
    # Type codes that the decoders use as *dictionary keys* (flowspec component type, Prefix-SID TLV type, EVPN route
    # type, BGP-LS NLRI type) are enumerated as a concrete prefix: a symbolic dict key is realised by CrossHair, i.e.
    # degenerates to enumeration.  Everything after the prefix is symbolic.
    typed = {
        'prefixsid': [[1], [3], [5], [9]],
        'nlri-flowspec4': [[t] for t in range(1, 14)],
        'nlri-evpn': [[t] for t in (1, 2, 3, 4, 5, 9)],
        'nlri-bgpls': [[0, t] for t in (1, 2, 3, 4, 6, 9)],
        'linkstate-attr': [],
    }
    # measured: leaf decoders whose path count explodes beyond these lengths (bit-level branching on every octet)
    qmax = {'nlri-lu4': 4, 'nlri-lu6': 4, 'nlri-ipv6': 4, 'attributes': 4, 'linkstate-attr': 3, 'nlri-flowspec4': 0,
            'prefixsid': 3, 'mpreach': 4, 'mpunreach': 4, 'nlri-vpnv4': 4, 'nlri-vpnv6': 4, 'nlri-evpn': 3, 'nlri-bgpls': 3}
    maxn = 5 if quick else 7
    # thorough tier: decoders whose path count grows by an order of magnitude per octet stop earlier
    tmax = {'nlri-flowspec4': 3, 'extcommunity': 6, 'attributes': 6, 'linkstate-attr': 3, 'nlri-evpn': 5, 'nlri-bgpls': 5,
            'mpreach': 6, 'mpunreach': 6, 'prefixsid': 5, 'update': 3, 'update-as4': 3, 'update-addpath': 3}
    for name in names:
        top = min(maxn, qmax.get(name, maxn)) if quick else min(maxn, tmax.get(name, maxn))
        for n in range(0, top + 1):
            if quick and n in (3,) and name not in ('update', 'attributes', 'mpreach', 'mpunreach'):
                continue
            prm = {'dec': name, 'n': n}
            if name.startswith('update'):
                prm['dict_result'] = True
                if n >= 4:
                    continue     # in-range bodies are ob_update_inrange; out-of-range lengths covered by n<=3
            out.append(ob('C11/leaf/%s/n=%d' % (name, n), 'ob_leaf', prm, cap=200 if quick else 400))
        for pre in typed.get(name, []):
            for n in (((1, 2) if name == 'nlri-flowspec4' else (1, 2, 3)) if quick else
                      (range(0, 4) if name == 'nlri-flowspec4' else range(0, 6))):
                # (flowspec operators branch on every bit of every octet: 4 symbolic octets behind the type already
                # take 10 000+ paths and end UNKNOWN at any affordable cap - measured in the thorough run)
                out.append(ob('C11/leaf/%s/type=%s/n=%d' % (name, '-'.join(map(str, pre)), n), 'ob_leaf',
                              {'dec': name, 'n': n, 'prefix': pre}, cap=200 if quick else 400))
    # per-family MP_REACH / MP_UNREACH tails
    for (afi, safi) in MP_FAMILIES:
        for n in (((1, 2) if safi == 133 else (1, 3)) if quick else (range(0, 4) if safi == 133 else range(0, 6))):
            pre = list(struct.pack('!HB', afi, safi))
            out.append(ob('C11/leaf/mpunreach/afi=%d/safi=%d/n=%d' % (afi, safi, n), 'ob_leaf',
                          {'dec': 'mpunreach', 'n': n, 'prefix': pre}, cap=200 if quick else 800))
            for nh in ((4,) if afi == 1 else (16,)):
                pre2 = list(struct.pack('!HBB', afi, safi, nh)) + [1] * nh + [0]
                out.append(ob('C11/leaf/mpreach/afi=%d/safi=%d/nh=%d/n=%d' % (afi, safi, nh, n), 'ob_leaf',
                              {'dec': 'mpreach', 'n': n, 'prefix': pre2}, cap=200 if quick else 800))
    # OPEN with capability values made of repeated 4-octet tuples (ADD-PATH 69, MP 1, extended next hop 5 ...): the
    # same tuple k times, last octet symbolic
    for code in (69, 1, 5, 64, 71):
        for k in (2, 3):
            tup = [0, 1, 1]
            val = (tup + [3]) * (k - 1) + tup
            pre = [4, 0xfc, 0, 0, 0xb4, 10, 0, 0, 6, 2 + 2 + len(val) + 1, 2, 2 + len(val) + 1, code, len(val) + 1] + val
            out.append(ob('C11/leaf/open/capability=%d/same-tuple-x%d' % (code, k), 'ob_leaf', {'dec': 'open', 'n': 1, 'prefix': pre},
                          cap=200 if quick else 600))
    # OPEN whose optional-parameter header (type, length) is symbolic, alone and in front of a capabilities parameter
    for tail in ([], [2, 2, 2, 0]):
        pre = [4, 0xfc, 0, 0, 0xb4, 10, 0, 0, 6, 2 + len(tail)]
        out.append(ob('C11/leaf/open/parameter-header/tail=%d' % len(tail), 'ob_leaf', {'dec': 'open', 'n': 2, 'prefix': pre, 'suffix': tail},
                      cap=200 if quick else 600))
    # sub-TLV carrying TLVs: many siblings / deep chains (work must stay linear)
    for outer in (1106, 1162):
        for form in ('siblings', 'chain'):
            for k in ((6, 14) if quick else (1, 2, 6, 14, 30, 60)):
                out.append(ob('C11/nested/outer=%d/%s/k=%d' % (outer, form, k), 'ob_nested', {'outer': outer, 'form': form, 'k': k},
                              cap=200 if quick else 600))
    # Update.parse, both length fields in range
    splits = [(0, 0, 0), (1, 0, 0), (0, 0, 1), (2, 0, 2), (0, 3, 0), (0, 4, 0), (0, 5, 0), (1, 3, 1), (0, 4, 2)]
    if not quick:
        splits += [(3, 0, 0), (0, 0, 3), (0, 6, 0), (0, 7, 0), (0, 8, 0), (2, 4, 2), (0, 5, 3), (4, 4, 0)]
    from vf.props.C10 import ATTR_CODES
    for (wl, al, nl) in splits:
        for asn4 in (False, True):
            codes = [None] if al < 2 else (ATTR_CODES if (not quick or (wl, al, nl) in ((0, 4, 0), (0, 5, 0))) else [2, 14, 99])
            for code in codes:
                out.append(ob('C11/update-inrange/w=%d/a=%d/n=%d/as4=%s/code=%s' % (wl, al, nl, asn4, code),
                              'ob_update_inrange', {'wlen': wl, 'alen': al, 'nlen': nl, 'asn4': asn4, 'code': code},
                              covers=['returned'], cap=250 if quick else 900))
    # every registered link-state TLV x every sub-length 0..16
    types = sorted(LinkState.registered_tlvs.keys()) + [9999]
    lens = [0, 1, 3, 4, 8, 16] if quick else list(range(0, 17))
    for t in types:
        for n in lens:
            for proto in ((1,) if t not in (1099, 1100, 1158, 1162, 1038) or quick else (1, 2, 3, 6)):
                out.append(ob('C11/tlv/type=%d/len=%d/proto=%d' % (t, n, proto), 'ob_tlv',
                              {'type': t, 'n': n, 'proto': proto, 'nsym': 8 if quick else 8}, cap=120 if quick else 600))
    return out
