"""C02 - the session self-heals: never stuck, nothing in the past blocks re-establishment."""
from vf.props.common import assume, cover, ob
from vf.props import sess_common as SC
from vf.props import C05
from vf import session as S

CLAIMED = True
P = {}
LEVEL_TEXT = ('Bounded symbolic verification: (safety, inductive) after one real event from every invariant session state with '
              'symbolic message fields the agent, unless stopped, is in session or has a reconnection pending (attempt in flight, '
              'idle-hold or connect-retry armed, or its own close still completing); (bounded liveness) after every symbolic '
              'adversarial event sequence from boot (depth <= 3/4, operator stop excluded) a cooperative peer brings the session to '
              'Established within idle_hold_time + one connection cycle of virtual time, it is still Established three hold times '
              'later, and the OPEN of the healed session is byte-identical to the very first OPEN (nothing leaked).')
LEVEL_NOTE = 'Twisted as modelled, virtual clock; timer configurations enumerated; the cooperative peer proposes hold 90 / 3 / 0.'
LEVEL_ADDED = 'Also: every one-step obligation again from states with an earlier connection in the history, and under a timer configuration that tells connect-retry (120 s) from idle-hold (10 s) apart; the pending idle-hold delay is bounded by idle_hold_time; heal bound = idle_hold_time + 1 s. After every step the close the agent asked for is completed and the reconnection must still be pending; heal histories in which the peer comes back with another BGP identifier. Idle / Connect states with a hold timer left over from the previous connection (reachable on the pinned tree), every event including its expiry.'
TECHNIQUE = 'symbolic one-step pending-reconnect invariant + bounded symbolic adversarial sequences followed by a cooperative script (CrossHair+z3)'
EXPLANATION = 'C02: pending-reconnect invariant and cooperative-recovery script after symbolic adversarial prefixes.'
BOUNDS = 'adversarial prefix depth <= 3 (quick) / 4 (thorough) over 16 event classes; 3 timer configurations; cooperative phase <= 14 steps + 9 keepalive rounds'
ASSUMPTIONS = ['Twisted contract as modelled', 'virtual time only (no wall clock)']
BUDGET = {'quick': 300, 'thorough': 1800}


def reconnect_pending(w):
    """unless stopped: in session, or some mechanism is armed that will start the next attempt"""
    if not w.fsm.allow_automatic_start:
        return True
    r = w.reactor
    st = w.state
    connected = [c for c in r.connectors if c.state == 'connected']
    closing = [c for c in connected if c.transport.disconnecting]
    usable = [c for c in connected if not c.transport.disconnecting]
    connecting = [c for c in r.connectors if c.state == 'connecting']
    if st in (S.OPENSENT, S.OPENCONFIRM, S.ESTABLISHED):
        if not usable:
            return False
        if st == S.OPENSENT:
            return w.timer_active('hold')          # cannot wait for the peer's OPEN forever
        return True
    if st == S.CONNECT:
        return len(connecting) == 1 or w.timer_active('connect_retry')
    if st == S.IDLE:
        if w.timer_active('idle_hold') and w.timer_deadline('idle_hold') - r.now > w.cfg['idle_hold_time']:
            return False                           # pending, but later than one idle-hold period
        return w.timer_active('idle_hold') or len(closing) > 0 or len(connecting) > 0
    return False


def ob_step(a: int, b: int, c: int, hold: int) -> bool:
    state, ev = P['state'], P['ev']
    if state in (S.OPENCONFIRM, S.ESTABLISHED):
        assume(hold == 0 or 3 <= hold < 65536)
        if ev in ('kat', 'holdt'):
            assume(hold > 0)
    else:
        hold = None
    w = S.in_state(state, dict(P.get('cfg', {})), hold=hold, closing=P.get('closing', False),
                   old_closed=P.get('old_closed', False), old_closing=P.get('old_closing', False),
                   stale_hold_timer=P.get('stale_hold_timer'))
    SC.inject(w, ev, a, b, c)
    cover('stepped')
    if not reconnect_pending(w):
        return False
    # the close the agent asked for completes (connectionLost is delivered): a reconnection must still be pending - it
    # may not hinge on the close never being reported
    closing = [c_ for c_ in w.reactor.connectors if c_.state == 'connected' and c_.transport.disconnecting]
    for c_ in closing:
        w.ev_conn_lost(c_)
    return reconnect_pending(w)


def cooperate(w, peer_hold, budget):
    """a well-behaved peer and the passage of virtual time; returns True when Established"""
    t_end = w.reactor.now + budget
    fuel = 14
    while fuel > 0:
        fuel -= 1
        if w.state == S.ESTABLISHED:
            return True
        r = w.reactor
        connected = [c for c in r.connectors if c.state == 'connected']
        closing = [c for c in connected if c.transport.disconnecting]
        connecting = [c for c in r.connectors if c.state == 'connecting']
        if closing:
            closing[0].world_connection_lost()
            continue
        if connecting:
            connecting[0].world_connect_ok()
            continue
        if w.state == S.OPENSENT and connected:
            w.ev_data(S.rfc_open(4, 65002, peer_hold, 0x0A000002, S.cap_as4(65002)))
            continue
        if w.state == S.OPENCONFIRM and connected:
            w.ev_data(S.KEEPALIVE)
            continue
        if not r.active_calls():
            return False                 # stuck: nothing pending at all
        name = SC.next_timer(w)
        if w.timer_deadline(name) > t_end:
            return False                 # too late
        w.ev_fire(name)
    return False


def stays_up(w, rounds=9):
    h = w.fsm.hold_time
    if h == 0:
        # silence never ends the session: let a long time pass, nothing may fire
        if w.reactor.active_calls():
            for name in ('hold', 'keepalive'):
                if w.timer_active(name):
                    return False
        return w.state == S.ESTABLISHED
    for _ in range(rounds):
        t = w.reactor.now + h / 3
        fuel = 6
        while fuel > 0:
            fuel -= 1
            best = None
            for name in ('hold', 'keepalive'):
                if w.timer_active(name):
                    d = w.timer_deadline(name)
                    if d <= t and (best is None or d < best[0]):
                        best = (d, name)
            if best is None:
                break
            w.ev_fire(best[1])
            if w.state != S.ESTABLISHED:
                return False
        w.reactor.now = t
        w.ev_data(S.KEEPALIVE)
        if w.state != S.ESTABLISHED:
            return False
    return True


def ob_heal(e1: int, e2: int, e3: int, e4: int) -> bool:
    first_open = {}

    def after_boot(w):
        first_open['mark'] = w.mark()

    def step_check(w, info):
        if 'bytes' not in first_open:
            for (_t, _tm, data) in w.wire(0):
                if S.split_types(data) == [(1,)]:
                    first_open['bytes'] = data
                    break
        return reconnect_pending(w)

    cfgd = dict(P.get('cfg', {}))
    P2 = dict(P)
    P2['cfg'] = cfgd
    if not SC.run_seq(P2, [e1, e2, e3, e4], step_check, after_boot):
        return False
    # the world of run_seq is the global reactor's: recover it
    w = LAST['w']
    c = w.cfg
    # "within one idle-hold period plus one connection cycle": the cooperative peer accepts a TCP attempt at once, so
    # the cycle costs no virtual time; one second of slack
    budget = c['idle_hold_time'] + 1
    n_wire = len(w.reactor.wire)
    if not cooperate(w, P.get('peer_hold', 90), budget):
        return False
    cover('healed')
    # the OPEN of the healed session (if a new one was needed) equals the first OPEN ever sent
    opens = [d for (_t, _tm, d) in w.reactor.wire[n_wire:] if S.split_types(d) == [(1,)]]
    if opens and 'bytes' in first_open and opens[-1] != first_open['bytes']:
        return False
    if opens and not C05.open_ok_for_config(C05.read_open(opens[-1]), c['local_as'], c['hold_time'], c['bgp_id'], c['caps']):
        return False
    return stays_up(w)


LAST = {}
_orig_boot = S.boot


def _boot(cfgd=None):
    w = _orig_boot(cfgd)
    LAST['w'] = w
    return w


S.boot = _boot

ADV = ['tcp_ok', 'tcp_fail', 'timer', 'open_ok', 'ka', 'upd', 'notif', 'hdr_type', 'peer_close', 'close_done',
       'open_hold12', 'open_badver', 'open_badas', 'upd_bad', 'hdr_len', 'notif_ver']

CONFIGS = {
    'default': {},
    'fast': {'hold_time': 3, 'keep_alive_time': 1, 'connect_retry_time': 10, 'idle_hold_time': 5},
    'hold0': {'hold_time': 0, 'keep_alive_time': 0, 'connect_retry_time': 30, 'idle_hold_time': 30},
    # connect-retry much longer than idle-hold: tells the two timers apart
    'skew': {'connect_retry_time': 120, 'idle_hold_time': 10},
}


def obligations(tier, seed):
    quick = tier == 'quick'
    out = []
    for state, evs in SC.EVENTS_BY_STATE.items():
        for ev in evs:
            if ev == 'manual_stop':
                continue
            out.append(ob('C02/pending/%s/%s' % (S.STATE_NAMES[state], ev), 'ob_step', {'state': state, 'ev': ev},
                          covers=['stepped'], cap=120))
            if ev in ('tcp_fail', 'peer_close', 'holdt', 'notif', 'hdr_type', 'open_badver', 'crt', 'notif_ver', 'upd', 'ka'):
                out.append(ob('C02/pending-skew/%s/%s' % (S.STATE_NAMES[state], ev), 'ob_step',
                              {'state': state, 'ev': ev, 'cfg': CONFIGS['skew']}, covers=['stepped'], cap=120))
    # the same with an earlier connection in the history: finished (the FSM still refers to its protocol object) or
    # still closing
    for state, evs in SC.EVENTS_BY_STATE.items():
        for ev in evs:
            if ev == 'manual_stop':
                continue
            if quick and state not in (S.IDLE, S.CONNECT) and ev not in ('holdt', 'notif', 'peer_close', 'hdr_type', 'open_badver'):
                continue
            out.append(ob('C02/pending-after-earlier-connection/%s/%s' % (S.STATE_NAMES[state], ev), 'ob_step',
                          {'state': state, 'ev': ev, 'old_closed': True}, covers=['stepped'], cap=120))
            if state != S.IDLE:
                out.append(ob('C02/pending-earlier-connection-closing/%s/%s' % (S.STATE_NAMES[state], ev), 'ob_step',
                              {'state': state, 'ev': ev, 'old_closing': True}, covers=['stepped'], cap=120))
    # a hold timer left over from the previous connection is still running (Idle / Connect) - and expires there, or
    # something else happens first
    for state in (S.IDLE, S.CONNECT):
        for ev in ['holdt'] + [e for e in SC.EVENTS_BY_STATE[state] if e != 'manual_stop']:
            out.append(ob('C02/pending-stale-hold-timer/%s/%s' % (S.STATE_NAMES[state], ev), 'ob_step',
                          {'state': state, 'ev': ev, 'old_closed': True, 'stale_hold_timer': 240}, covers=['stepped'], cap=120))
    out.append(ob('C02/pending/IDLE/close_done', 'ob_step', {'state': S.IDLE, 'ev': 'close_done', 'closing': True},
                  covers=['stepped']))
    k = 3 if quick else 4
    for sec in ('open_ok', 'ka'):
        # the earlier session used another BGP identifier than the cooperative peer will (router replaced / renumbered)
        out.append(ob('C02/heal/default/peer-id-changes/k=%d/tcp_ok/%s' % (k, sec), 'ob_heal',
                      {'alphabet': ADV, 'k': k, 'first': ADV.index('tcp_ok'), 'second': ADV.index('open_ok'), 'cfg': {},
                       'peer_hold': 90, 'vals': {'open_ok': [90, 0x0A000009, 0]}}, covers=['healed'], cap=280 if quick else 1100))
    for cname, cfgd in CONFIGS.items():
        for peer_hold in ([90] if quick else [90, 3, 0]):
            for first_ev in ('tcp_ok', 'tcp_fail', 'timer'):
                seconds = [None]
                if first_ev == 'tcp_ok':
                    seconds = ['open_ok', 'ka', 'upd', 'notif', 'hdr_type', 'peer_close', 'open_hold12', 'open_badver',
                               'open_badas', 'upd_bad', 'hdr_len', 'notif_ver', 'timer']
                for sec in seconds:
                    prm = {'alphabet': ADV, 'k': k, 'first': ADV.index(first_ev), 'cfg': cfgd, 'peer_hold': peer_hold}
                    if sec is not None:
                        prm['second'] = ADV.index(sec)
                    out.append(ob('C02/heal/%s/peer_hold=%d/k=%d/%s%s' % (cname, peer_hold, k, first_ev,
                                                                         '/' + sec if sec else ''),
                                  'ob_heal', prm, covers=['healed'], cap=280 if quick else 1100))
    return out
