"""C12 - at most one TCP connection or connection attempt to the peer at any time."""
from vf.props.common import assume, cover, ob
from vf.props import sess_common as SC
from vf import session as S

CLAIMED = True
P = {}
LEVEL_TEXT = ('Bounded symbolic verification: after one real event from every invariant session state (symbolic message fields, '
              'negotiated hold) and after every step of symbolic event sequences from boot in which connection results, timer '
              'expiries (any order among equal deadlines) and operator commands race freely, the number of live connectors is <= 1, '
              'every byte written went to the transport the FSM tracks, and every connector ever created is closed or tracked.')
LEVEL_NOTE = 'Twisted connector life-cycle as modelled in vf/env/twisted_stub.py (stopConnecting calls clientConnectionFailed synchronously, as Twisted does).'
LEVEL_ADDED = 'Also: one-step obligations from states with an earlier connection finished / still closing. An environment in which the kernel refuses the configured TCP-MD5 key (setsockopt raises). Peer data arriving on the previous (closing) connection while the application has an UPDATE queued.'
TECHNIQUE = 'symbolic one-step + bounded symbolic event sequences (CrossHair+z3) with a connector-accounting invariant'
EXPLANATION = 'C12: connector accounting invariant after every step.'
BOUNDS = 'all (state, event class) pairs; sequences from boot up to depth 4 (quick) / 5 (thorough) over the racing sub-alphabet; connect-retry time 10/30/60 vs the 30 s connect timeout'
ASSUMPTIONS = ['Twisted contract as modelled', 'the TCP connect timeout is the environment event tcp_fail, which may come at any time']
BUDGET = {'quick': 300, 'thorough': 1200}


def accounting_ok(w, obs):
    # live = an attempt still pending, or a connection on which the agent has not called loseConnection
    live = [c for c in w.live_connectors() if c.state == 'connecting' or not c.transport.disconnecting]
    if len(live) > 1:
        return False
    tracked = getattr(w.peering, 'connector', None)
    p = w.fsm.protocol
    cur_t = p.transport if p is not None else None
    # every message written in this step went to the connection the state machine is tracking
    for (t, _time, _data) in obs['wire']:
        if t is not cur_t:
            return False
    # every connection that is still open is the tracked one (or the one the FSM's protocol uses)
    if w.state in (S.IDLE, S.CONNECT):
        # no session is up, so no connection may be left open (one that is being closed does not count)
        for c in live:
            if c.state == 'connected':
                return False
    for c in live:
        if c.state == 'connecting':
            if c is not tracked:
                return False
        else:
            if c.transport is not cur_t:
                return False
    return True


def ob_step(a: int, b: int, c: int, hold: int) -> bool:
    state, ev = P['state'], P['ev']
    if state in (S.OPENCONFIRM, S.ESTABLISHED):
        assume(hold == 0 or 3 <= hold < 65536)
        if ev in ('kat', 'holdt'):
            assume(hold > 0)
    else:
        hold = None
    w = S.in_state(state, dict(P.get('cfg', {})), hold=hold, closing=P.get('closing', False),
                   old_closing=P.get('old_closing', False), pending_attempt=P.get('pending_attempt', False),
                   old_closed=P.get('old_closed', False))
    mark = w.mark()
    if ev.startswith('late_old:'):
        # bytes of the peer that were in flight on the previous connection (which the agent is closing) arrive now, while
        # the application has an UPDATE queued for the peer: nothing may be written to that old connection
        w.handler.inter_mq.put({'type': 'update', 'msg': {'attr': {1: 0, 2: [], 3: '10.0.0.1'}, 'nlri': ['10.9.0.0/16']}})
        data = {'keepalive': S.KEEPALIVE, 'update': S.rfc_update_min(), 'unknown-type': S.MARKER + bytes([0, 19, 99])}[ev[9:]]
        w.old_connector.protocol.dataReceived(data)
        obs = SC.observe(w, mark)
        cover('stepped')
        for (t, _time, _data) in obs['wire']:
            if t is w.old_connector.transport:
                return False
        return accounting_ok(w, obs)
    if ev == 'close_done_old':
        w.old_connector.world_connection_lost()
    else:
        SC.inject(w, ev, a, b, c)
    obs = SC.observe(w, mark)
    cover('stepped')
    return accounting_ok(w, obs)


def ob_seq(e1: int, e2: int, e3: int, e4: int, e5: int) -> bool:
    def step_check(w, info):
        return accounting_ok(w, info['obs'])
    return SC.run_seq(P, [e1, e2, e3, e4, e5], step_check)


RACE = ['tcp_ok', 'tcp_fail', 'timer:connect_retry', 'timer:idle_hold', 'timer:hold', 'manual_stop', 'manual_start',
        'open_ok', 'ka', 'notif', 'peer_close', 'close_done']


def ob_md5_refused(e1: int, e2: int, e3: int) -> bool:
    """TCP-MD5 configured and the kernel refuses the key (setsockopt raises): whatever the agent does about the error,
    the attempt it started stays accounted for - at most one attempt / connection at any time"""
    evs = ['timer', 'tcp_ok', 'tcp_fail', 'manual_stop', 'manual_start', 'close_done']
    w = S.boot({'md5': 'k' * 81, 'md5_refused': True, 'connect_retry_time': P.get('crt', 10)})
    try:
        w.ev_auto_start()
    except OSError:
        pass                      # the reactor logs what a callback raises
    for e in (e1, e2, e3)[:P['k']]:
        assume(0 <= e < len(evs))
        ev = evs[e]
        if not SC.applicable(w, ev):
            assume(False)
        mark = w.mark()
        try:
            if ev == 'timer':
                w.ev_fire(SC.next_timer(w))
            else:
                SC.inject(w, ev, 0, 0, 0)
        except OSError:
            pass
        obs = SC.observe(w, mark)
        if not accounting_ok(w, obs):
            return False
    cover('seq')
    return True


def obligations(tier, seed):
    quick = tier == 'quick'
    out = []
    for state, evs in SC.EVENTS_BY_STATE.items():
        for ev in evs:
            out.append(ob('C12/step/%s/%s' % (S.STATE_NAMES[state], ev), 'ob_step', {'state': state, 'ev': ev},
                          covers=['stepped'], cap=120))
    out.append(ob('C12/step/IDLE/close_done', 'ob_step', {'state': S.IDLE, 'ev': 'close_done', 'closing': True},
                  covers=['stepped']))
    # the previous connection is still finishing its close (stop / start overtook it)
    for state in (S.CONNECT, S.OPENSENT, S.OPENCONFIRM, S.ESTABLISHED):
        evs = ['close_done_old'] + [e for e in SC.EVENTS_BY_STATE[state]
                                    if not quick or e in ('tcp_ok', 'tcp_fail', 'crt', 'open_ok', 'ka', 'notif', 'holdt',
                                                          'peer_close', 'manual_stop', 'manual_start', 'hdr_type')]
        for ev in evs:
            out.append(ob('C12/step-old-closing/%s/%s' % (S.STATE_NAMES[state], ev), 'ob_step',
                          {'state': state, 'ev': ev, 'old_closing': True}, covers=['stepped'], cap=120))
    for state in (S.CONNECT, S.OPENSENT, S.ESTABLISHED):
        for kind in ('keepalive', 'update', 'unknown-type'):
            out.append(ob('C12/step-old-closing/%s/late-data-on-old-connection/%s' % (S.STATE_NAMES[state], kind), 'ob_step',
                          {'state': state, 'ev': 'late_old:' + kind, 'old_closing': True}, covers=['stepped'], cap=120))
    # an earlier connection that is completely over is still referenced by the FSM
    for state in (S.IDLE, S.CONNECT):
        for ev in SC.EVENTS_BY_STATE[state]:
            out.append(ob('C12/step-after-earlier-connection/%s/%s' % (S.STATE_NAMES[state], ev), 'ob_step',
                          {'state': state, 'ev': ev, 'old_closed': True}, covers=['stepped'], cap=120))
    # Idle with an attempt still pending (the old connection closed late, after stop/start)
    for ev in ('start_idlehold', 'manual_start', 'tcp_ok', 'tcp_fail', 'manual_stop'):
        out.append(ob('C12/step-idle-pending-attempt/%s' % ev, 'ob_step',
                      {'state': S.IDLE, 'ev': ev, 'pending_attempt': True}, covers=['stepped'], cap=120))
    for crt in (10, 30):
        out.append(ob('C12/md5-key-refused/crt=%d/k=3' % crt, 'ob_md5_refused', {'k': 3, 'crt': crt}, covers=['seq'],
                      cap=280 if quick else 800))
    for crt in ([30] if quick else [10, 30, 60]):
        k = 4 if quick else 5
        for first_ev in ('tcp_ok', 'tcp_fail', 'timer:connect_retry', 'manual_stop', 'manual_start'):
            out.append(ob('C12/seq/k=%d/crt=%d/first=%s' % (k, crt, first_ev), 'ob_seq',
                          {'alphabet': RACE, 'k': k, 'first': RACE.index(first_ev), 'cfg': {'connect_retry_time': crt}},
                          covers=['seq'], cap=280 if quick else 1100))
    return out
