"""C05 - each session's OPEN and its acceptance policy depend only on configuration."""
import struct

from vf.props.common import assume, cover, ob
from vf.props import sess_common as SC
from vf import session as S

CLAIMED = True
P = {}
LEVEL_TEXT = ('Bounded symbolic verification on the real BGPPeering/BGP objects: (1) the OPEN written on a new connection is parsed '
              'by an independent RFC 4271/5492 reader and must carry version 4, the configured AS (AS_TRANS + capability 65 above '
              '65535), the configured hold time and identifier and only configured capabilities - for symbolic AS / hold / id, and '
              'again, byte-identical, after a complete earlier session whose peer OPEN (hold time, capability set, accepted or '
              'rejected) is symbolic/enumerated; (2) a peer OPEN with symbolic version, 2-octet AS, 4-octet AS, hold is accepted iff '
              'version=4, effective AS = configured remote AS, hold not 1 or 2, with hold = min; (3) AS numbers of a later UPDATE '
              'are read as 4-octet iff both sides advertised capability 65 in this session.')
LEVEL_NOTE = 'Twisted as modelled; configured times are read by FSM.__init__ (symbolic values are placed there, oslo.config would coerce them).'
LEVEL_ADDED = 'Also: acceptance with the peer identifier of an earlier session still remembered (same / different). AGGREGATOR of both AS widths in the 4-octet-mode obligations.'
TECHNIQUE = 'symbolic execution of send_open/_open_received/negotiate_hold_time over two consecutive sessions (CrossHair+z3) with an independent OPEN reader'
EXPLANATION = 'C05: OPEN content vs configuration across sessions; acceptance predicate; 4-octet-AS mode.'
BOUNDS = 'local AS 1..2^32-1, hold 0|3..65535, id 1..2^32-1 symbolic; capability subsets enumerated; one earlier session (symbolic proposed hold, enumerated peer capability sets and outcomes)'
ASSUMPTIONS = ['Twisted contract as modelled', 'one earlier session stands for any number (the leftovers it can produce are the same)']
BUDGET = {'quick': 300, 'thorough': 1200}


def read_open(data):
    """independent reader: (version, as2, hold, id, [(code, value bytes)]) of one OPEN message"""
    if data[:16] != b'\xff' * 16 or data[18] != 1:
        return None
    length = data[16] * 256 + data[17]
    if length != len(data) or length < 29:
        return None
    version = data[19]
    as2 = data[20] * 256 + data[21]
    hold = data[22] * 256 + data[23]
    ident = ((data[24] * 256 + data[25]) * 256 + data[26]) * 256 + data[27]
    optlen = data[28]
    if 29 + optlen != length:
        return None
    caps = []
    i = 29
    while i < length:
        ptype, plen = data[i], data[i + 1]
        if ptype != 2 or i + 2 + plen > length:
            return None
        j = i + 2
        while j < i + 2 + plen:
            code, clen = data[j], data[j + 1]
            if j + 2 + clen > i + 2 + plen:
                return None
            caps.append((code, bytes(data[j + 2:j + 2 + clen])))
            j += 2 + clen
        i += 2 + plen
    return version, as2, hold, ident, caps


CAP_CODES = {'afi_safi': 1, 'route_refresh': 2, 'cisco_route_refresh': 128, 'four_bytes_as': 65, 'ext_nexthop': 5,
             'add_path': 69, 'enhanced_route_refresh': 70, 'graceful_restart': 64, 'cisco_multi_session': 131}


def open_ok_for_config(parsed, local_as, hold, ident, caps_cfg):
    if parsed is None:
        return False
    version, as2, h, i, caps = parsed
    if version != 4 or h != hold or i != ident:
        return False
    if local_as > 65535:
        if as2 != 23456:
            return False
    elif as2 != local_as:
        return False
    allowed = set()
    for k, v in caps_cfg.items():
        if v:
            allowed.add(CAP_CODES[k])
    if local_as > 65535:
        allowed.add(65)
    as4_seen = False
    for code, val in caps:
        if code not in allowed:
            return False
        if code == 65:
            as4_seen = True
            if len(val) != 4 or struct.unpack('!I', val)[0] != local_as:
                return False
    if (local_as > 65535 or caps_cfg.get('four_bytes_as')) and not as4_seen:
        return False
    return True


def first_open(w, mark):
    wire = w.wire(mark['wire'])
    if len(wire) != 1:
        return None
    return wire[0][2]


PEER_CAPSETS = {
    'none': b'',
    'as4': None,     # filled with the peer AS
    'as4+rr': None,
    'rr-only': S.cap_param(2),
    'mp+as4+addpath': None,
}


def peer_caps(name, peer_as):
    if name == 'none':
        return b''
    if name == 'as4':
        return S.cap_as4(peer_as)
    if name == 'as4+rr':
        return S.cap_as4(peer_as) + S.cap_param(2) + S.cap_param(128)
    if name == 'rr-only':
        return S.cap_param(2)
    if name == 'mp+as4+addpath':
        return S.cap_param(1, struct.pack('!HBB', 1, 0, 1)) + S.cap_as4(peer_as) + S.cap_param(69, struct.pack('!HBB', 1, 1, 3))
    raise AssertionError(name)


def ob_open_content(local_as: int, hold: int, ident: int, prop: int) -> bool:
    """session 1: OPEN content; peer answers with an OPEN (symbolic proposed hold, enumerated caps and outcome);
    the session ends; session 2: the OPEN is byte-identical and still conforms to the configuration."""
    assume(1 <= local_as < 2 ** 32)
    if P.get('as_class') == 'small':
        assume(local_as < 65536)
    elif P.get('as_class') == 'big':
        assume(local_as >= 65536)
    assume(hold == 0 or 3 <= hold < 65536)
    assume(1 <= ident < 2 ** 32)
    if not P.get('ident_full'):
        # send_open renders the identifier as dotted text for the application report, which forks on the digit
        # count of every octet (81 classes): here all four octets are three-digit; ob_open_id covers the rest
        assume(ident // 16777216 >= 100 and (ident // 65536) % 256 >= 100 and (ident // 256) % 256 >= 100 and ident % 256 >= 100)
    assume(0 <= prop < 65536)
    caps_cfg = dict(P['caps'])
    cfgd = {'local_as': local_as, 'hold_time': hold, 'bgp_id': ident, 'caps': dict(caps_cfg), 'remote_as': P.get('remote_as', 65002)}
    w = S.boot(cfgd)
    w.ev_auto_start()
    mark = w.mark()
    w.ev_tcp_ok()
    o1 = first_open(w, mark)
    if o1 is None or not open_ok_for_config(read_open(o1), local_as, hold, ident, caps_cfg):
        return False
    cover('open1')
    if P.get('single'):
        cover('open2')
        return True
    # --- the earlier session runs its course ---------------------------------------------------------
    peer_as = cfgd['remote_as']
    as2 = peer_as if peer_as < 65536 else 23456
    how = P['first_session']
    if how == 'accepted':
        assume(prop != 1 and prop != 2)
        w.ev_data(S.rfc_open(4, as2, prop, 0x0A000002, peer_caps(P['peer_caps'], peer_as)))
        if w.state != S.OPENCONFIRM:
            return False
        w.ev_data(S.KEEPALIVE)
        w.ev_conn_lost()                      # the peer drops the session
    elif how == 'rejected-hold':
        assume(prop == 1 or prop == 2)
        w.ev_data(S.rfc_open(4, as2, prop, 0x0A000002, peer_caps(P['peer_caps'], peer_as)))
        w.ev_conn_lost()
    elif how == 'rejected-as':
        w.ev_data(S.rfc_open(4, 64999, prop, 0x0A000002, S.cap_as4(64999) + S.cap_param(2)))
        w.ev_conn_lost()
    elif how == 'manual-stop-start':
        assume(prop != 1 and prop != 2)
        w.ev_data(S.rfc_open(4, as2, prop, 0x0A000002, peer_caps(P['peer_caps'], peer_as)))
        if w.state != S.OPENCONFIRM:
            return False
        if P.get('established_first', True):
            w.ev_data(S.KEEPALIVE)
        w.ev_manual_stop()
        w.ev_conn_lost()
        mark2 = w.mark()
        w.ev_manual_start()
        w.ev_tcp_ok()
        o2 = first_open(w, mark2)
        cover('open2')
        return o2 is not None and o2 == o1 and w.state == S.OPENSENT
    elif how == 'notif-version':
        assume(prop != 1 and prop != 2)
        w.ev_data(S.rfc_open(4, as2, prop, 0x0A000002, peer_caps(P['peer_caps'], peer_as)))
        if w.state != S.OPENCONFIRM:
            return False
        w.ev_data(S.rfc_notification(2, 1))
        w.ev_conn_lost()
    elif how == 'notification':
        w.ev_data(S.rfc_open(4, as2, prop, 0x0A000002, peer_caps(P['peer_caps'], peer_as)))
        if w.state == S.OPENCONFIRM:
            w.ev_data(S.rfc_notification(6, 2))
        w.ev_conn_lost()
    else:
        raise AssertionError(how)
    if w.state != S.IDLE or not w.timer_active('idle_hold'):
        return False
    w.ev_fire('idle_hold')
    mark2 = w.mark()
    w.ev_tcp_ok()
    o2 = first_open(w, mark2)
    cover('open2')
    return o2 is not None and o2 == o1 and w.state == S.OPENSENT


def ob_accept(version: int, as2: int, as4: int, hold: int, conf: int) -> bool:
    """acceptance predicate and negotiated hold"""
    assume(0 <= version < 256 and 0 <= as2 < 65536 and 0 <= as4 < 2 ** 32 and 0 <= hold < 65536)
    assume(conf == 0 or 3 <= conf < 65536)
    remote_as = P['remote_as']
    with_cap = P['with_cap']
    w = S.in_state(S.OPENSENT, {'remote_as': remote_as, 'hold_time': conf})
    if P.get('remembered_id'):
        # the BGP identifier the peer used in an earlier session (the same one / another one) is still remembered:
        # acceptance depends on version, AS and hold time only
        w.peering.peer_id = P['remembered_id']
    mark = w.mark()
    caps = S.cap_as4(as4) if with_cap else b''
    w.ev_data(S.rfc_open(version, as2, hold, 0x0A000002, caps))
    obs = SC.observe(w, mark)
    if with_cap:
        assume(as2 != 0)      # RFC 7607: AS 0 in the 2-octet field is rejected whatever the capability says
    eff = as4 if with_cap else as2
    accept = version == 4 and eff == remote_as and hold != 1 and hold != 2
    if accept:
        cover('accepted')
        h = conf if conf < hold else hold
        return w.state == S.OPENCONFIRM and obs['writes'] == [(4,)] and obs['close'] == 0 and w.fsm.hold_time == h
    cover('rejected')
    subs = []
    if version != 4:
        subs.append(1)
    if eff != remote_as:
        subs.append(2)
    if hold == 1 or hold == 2:
        subs.append(6)
    if len(obs['writes']) != 1 or obs['writes'][0][0] != 3 or obs['writes'][0][1] != 2:
        return False
    return obs['writes'][0][2] in subs and obs['close'] >= 1 and w.state == S.IDLE


def ob_as4_mode(a1: int, a2: int) -> bool:
    """after the OPEN exchange AS numbers in UPDATEs are 4-octet iff both sides advertised capability 65
    (the agent advertises it when configured to, and always when its own AS exceeds 65535)"""
    local_flag, peer_cap = P['local_cap'], P['peer_cap']
    local_as, remote_as = P.get('local_as', 65001), P.get('remote_as', 65002)
    local_adv = local_flag or local_as > 65535
    both = local_adv and peer_cap
    hi = 2 ** 32 if both else 2 ** 16
    assume(1 <= a1 < hi and 1 <= a2 < hi)
    caps = dict(S.DEFAULT_CFG['caps'])
    caps['four_bytes_as'] = local_flag
    w = S.in_state(S.OPENSENT, {'caps': caps, 'remote_as': remote_as, 'local_as': local_as})
    as2 = remote_as if remote_as < 65536 else 23456
    w.ev_data(S.rfc_open(4, as2, 90, 0x0A000002, S.cap_as4(remote_as) if peer_cap else S.cap_param(2)))
    if remote_as > 65535 and not peer_cap:
        # the peer cannot express its AS: the OPEN must be rejected (Bad Peer AS) - nothing more to observe
        cover('update')
        return w.state == S.IDLE
    if w.state != S.OPENCONFIRM:
        return False
    w.ev_data(S.KEEPALIVE)
    if w.state != S.ESTABLISHED:
        return False
    fmt = '!II' if both else '!HH'
    seg = bytes([2, 2]) + struct.pack(fmt, a1, a2)
    attrs = bytes([0x40, 1, 1, 0]) + bytes([0x40, 2, len(seg)]) + seg + bytes([0x40, 3, 4, 10, 0, 0, 2])
    upd = S.frame(2, struct.pack('!H', 0) + struct.pack('!H', len(attrs)) + attrs + bytes([8, 10]))
    mark = w.mark()
    w.ev_data(upd)
    log = w.handler.log[mark['hlog']:]
    cover('update')
    if len(log) != 1 or log[0][0] != 'update_received':
        return False
    if not (log[0][1]['attr'].get(2) == [(2, [a1, a2])] and w.state == S.ESTABLISHED):
        return False
    # the same for AGGREGATOR: its AS field has the width of the session's mode; the other width is a length error
    agg_ok = (struct.pack('!I', a1) if both else struct.pack('!H', a1)) + bytes([10, 0, 0, 9])
    agg_other = (struct.pack('!H', a1 % 65536) if both else struct.pack('!I', a1)) + bytes([10, 0, 0, 9])
    for agg, good in ((agg_ok, True), (agg_other, False)):
        a_ = attrs + bytes([0xc0, 7, len(agg)]) + agg
        mark = w.mark()
        w.ev_data(S.frame(2, struct.pack('!H', 0) + struct.pack('!H', len(a_)) + a_ + bytes([8, 10])))
        log = w.handler.log[mark['hlog']:]
        if len(log) != 1 or log[0][0] != ('update_received' if good else 'on_update_error'):
            return False
        if good and log[0][1]['attr'].get(7) != (a1, '10.0.0.9'):
            return False
    return w.state == S.ESTABLISHED


def obligations(tier, seed):
    quick = tier == 'quick'
    out = []
    full = dict(S.DEFAULT_CFG['caps'])
    capsets = {'default': full,
               'no-as4': dict(full, four_bytes_as=False),
               'minimal': {'four_bytes_as': False, 'route_refresh': False, 'cisco_route_refresh': False,
                           'enhanced_route_refresh': False, 'graceful_restart': False, 'cisco_multi_session': False,
                           'add_path': None, 'afi_safi': [(1, 1)]},
               'addpath': dict(full, add_path='ipv4_both')}
    firsts = ['accepted', 'rejected-hold', 'rejected-as', 'notification', 'manual-stop-start', 'notif-version']
    peers = ['none', 'as4', 'as4+rr', 'rr-only', 'mp+as4+addpath']
    for cname, caps in capsets.items():
        for how in firsts:
            for pc in (peers if not quick else (['none', 'as4+rr'] if how == 'accepted' else ['as4'])):
                for cls in ('small', 'big'):
                    if quick and cls == 'big' and (cname not in ('default', 'no-as4') or how != 'accepted'):
                        continue
                    if how == 'rejected-as' and pc != 'as4':
                        continue
                    out.append(ob('C05/open/%s/%s/peer=%s/as=%s' % (cname, how, pc, cls), 'ob_open_content',
                                  {'caps': caps, 'first_session': how, 'peer_caps': pc, 'as_class': cls},
                                  covers=['open1', 'open2'], cap=200 if quick else 600))
    for cls in ('small', 'big'):
        out.append(ob('C05/open/identifier-all-digit-classes/as=%s' % cls, 'ob_open_content',
                      {'caps': full, 'first_session': 'accepted', 'peer_caps': 'none', 'as_class': cls,
                       'ident_full': True, 'single': True}, covers=['open1'], cap=280 if quick else 600))
    for remote_as in (65002, 4200000001, 23456):
        for with_cap in (False, True):
            if remote_as > 65535 and not with_cap and quick:
                continue
            out.append(ob('C05/accept/remote=%d/cap65=%s' % (remote_as, with_cap), 'ob_accept',
                          {'remote_as': remote_as, 'with_cap': with_cap},
                          covers=['rejected'] + (['accepted'] if (with_cap or remote_as < 65536) else []),
                          cap=200 if quick else 600))
            for rid in ('10.0.0.2', '10.9.9.9'):
                if quick and not (remote_as == 65002 and with_cap):
                    continue
                out.append(ob('C05/accept/remote=%d/cap65=%s/remembered-id=%s' % (remote_as, with_cap, rid), 'ob_accept',
                              {'remote_as': remote_as, 'with_cap': with_cap, 'remembered_id': rid},
                              covers=['rejected'] + (['accepted'] if (with_cap or remote_as < 65536) else []),
                              cap=200 if quick else 600))
    for lc in (True, False):
        for pc in (True, False):
            for (las, ras) in ((65001, 65002), (70000, 65002), (65001, 200000), (70000, 200000)):
                out.append(ob('C05/as4mode/local=%s/peer=%s/las=%d/ras=%d' % (lc, pc, las, ras), 'ob_as4_mode',
                              {'local_cap': lc, 'peer_cap': pc, 'local_as': las, 'remote_as': ras}, covers=['update']))
    return out
