"""Shared by the session properties: event injection through the real entry
points and observation of one step."""
import struct

from vf import session as S
from vf.loader import FUEL
from vf.props.common import assume, cover

# event classes that need a connected transport
MSG_EVENTS = ('open_ok', 'open_badver', 'open_badas', 'open_hold12', 'open_badparam', 'open_short', 'ka', 'upd',
              'upd_bad', 'upd_trunc', 'upd_mp', 'upd_max', 'notif_ver', 'notif', 'notif_then_more', 'rr', 'rr128', 'hdr_marker',
              'hdr_len', 'hdr_type', 'badlen')

EVENTS_BY_STATE = {
    S.IDLE: ['start_idlehold', 'manual_start', 'manual_stop'],
    S.CONNECT: ['tcp_ok', 'tcp_fail', 'crt', 'manual_stop', 'manual_start'],
    S.OPENSENT: list(MSG_EVENTS) + ['holdt', 'peer_close', 'manual_stop', 'manual_start'],
    S.OPENCONFIRM: list(MSG_EVENTS) + ['holdt', 'kat', 'peer_close', 'manual_stop', 'manual_start'],
    S.ESTABLISHED: list(MSG_EVENTS) + ['holdt', 'kat', 'peer_close', 'manual_stop', 'manual_start'],
}


BADLEN = [(4, 20), (4, 23), (2, 19), (2, 22), (3, 19), (3, 20), (5, 19), (5, 22)]


def oracle_event(ev):
    """(oracle event class, expected subcode or None)"""
    m = {'open_badver': ('open_bad', 1), 'open_badas': ('open_bad', 2), 'open_hold12': ('open_bad', 6),
         'open_badparam': ('open_bad', 4), 'hdr_marker': ('hdr', 1), 'hdr_len': ('hdr', 2), 'hdr_type': ('hdr', 3), 'badlen': ('hdr', 2),
         'upd_trunc': ('upd_bad', None), 'notif_then_more': ('notif', None), 'upd_mp': ('upd', None), 'upd_max': ('upd', None)}
    return m.get(ev, (ev, None))


def message_for(ev, w, a, b, c):
    """reference-encoded bytes of the peer message for event class ev; a,b,c symbolic ints
    (their meaning depends on the class).  Applies the assumptions that define the class."""
    cfg = w.cfg
    peer_as = cfg['remote_as']
    as2 = peer_as if peer_as < 65536 else 23456
    caps = S.cap_as4(peer_as) if cfg.get('peer_as4', True) else b''
    if ev == 'open_ok':
        # a = proposed hold (0 or >=3), b = identifier
        assume(0 <= a < 65536 and a != 1 and a != 2)
        assume(1 <= b < 2 ** 32)
        if cfg.get('extra_caps') == 'addpath-sym':
            # a valid OPEN may advertise ADD-PATH for any address family (c = afi*256 + safi, symbolic)
            assume(0 <= c < 65536 * 256)
            caps = caps + S.cap_param(69, struct.pack('!HBB', c // 256, c % 256, cfg.get('addpath_sr', 3)))
        return S.rfc_open(4, as2, a, b, caps)
    if ev == 'open_badver':
        assume(0 <= a < 256 and a != 4)
        assume(0 <= b < 65536)
        return S.rfc_open(a, as2, b, 0x0A000002, caps)
    if ev == 'open_badas':
        # peer without the 4-octet capability announcing a wrong 2-octet AS (a), or with it and a wrong 4-octet AS (b)
        if cfg.get('peer_as4', True):
            assume(1 <= b < 2 ** 32 and b != peer_as)
            return S.rfc_open(4, as2, 90, 0x0A000002, S.cap_as4(b))
        assume(1 <= a < 65536 and a != peer_as)
        return S.rfc_open(4, a, 90, 0x0A000002, b'')
    if ev == 'open_hold12':
        assume(a == 1 or a == 2)
        return S.rfc_open(4, as2, a, 0x0A000002, caps)
    if ev == 'open_badparam':
        # optional parameter of a type other than 2 (capabilities)
        assume(0 <= a < 256 and a != 2)
        bad = bytes([a, 2, 0, 0])
        return S.rfc_open(4, as2, 90, 0x0A000002, bad)
    if ev == 'open_short':
        # OPEN whose body is shorter than the fixed 10 octets (length field 19..28)
        return S.frame(1, bytes(cfg.get('short_open_body', [4, 0, 1, 0, 90])))
    if ev == 'ka':
        return S.KEEPALIVE
    if ev == 'upd':
        return S.rfc_update_min()
    if ev == 'upd_bad':
        # ORIGIN with an undefined value (a malformation the decoder checks)
        assume(3 <= a < 256)
        return S.frame(2, struct.pack('!HH', 0, 4) + bytes([0x40, 1, 1, a]))
    if ev == 'upd_mp':
        # well-formed UPDATEs that carry only an MP attribute: a flowspec / VPNv4 withdrawal of a rule that was never
        # announced, an IPv6 withdrawal / announcement, an address family the agent has no name for
        kind = cfg.get('mp_kind', 'fs-withdraw')
        assume(0 <= a < 256)
        if kind == 'fs-withdraw':
            val = struct.pack('!HB', 1, 133) + bytes([5, 1, 24, 10, a, 0])
            attrs = bytes([0x80, 15, len(val)]) + val
        elif kind == 'vpn-withdraw':
            val = struct.pack('!HB', 1, 128) + bytes([88 + 24, 0x80, 0, 0, 0, 0, 0, 100, 0, 0, 0, 100, 10, a, 0])
            attrs = bytes([0x80, 15, len(val)]) + val
        elif kind == 'ipv6-unreach':
            val = struct.pack('!HB', 2, 1) + bytes([32, 0x20, 1, 0x0d, a])
            attrs = bytes([0x80, 15, len(val)]) + val
        elif kind == 'unknown-family':
            val = struct.pack('!HB', 3, a) + bytes([0])
            attrs = bytes([0x80, 15, len(val)]) + val
        else:
            raise AssertionError(kind)
        return S.frame(2, struct.pack('!HH', 0, len(attrs)) + attrs)
    if ev == 'upd_max':
        # a well-formed UPDATE of exactly 4096 octets (an unknown optional transitive attribute as filler)
        assume(0 <= a <= 2)
        fill = 4096 - 23 - 22        # header + two length fields; ORIGIN 4, AS_PATH 7, NEXT_HOP 7, filler header 4
        attrs = bytes([0x40, 1, 1, a]) + bytes([0x40, 2, 4, 2, 1]) + struct.pack('!H', 65002) + bytes([0x40, 3, 4, 10, 0, 0, 2]) + \
            bytes([0xd0, 99, fill // 256, fill % 256]) + bytes(fill)
        return S.frame(2, struct.pack('!HH', 0, len(attrs)) + attrs)
    if ev == 'upd_trunc':
        # an UPDATE of legal frame length whose withdrawn-routes length (a) or attribute length (b) runs past its end
        assume(0 <= a < 65536 and 0 <= b < 65536)
        # 6 body octets: either the withdrawn length leaves no room for the attribute-length field, or (no withdrawn
        # routes) the attribute length is larger than what follows it
        assume(a >= 3 or (a == 0 and b >= 3))
        return S.frame(2, bytes([a // 256, a % 256, b // 256, b % 256, 0, 0]))
    if ev == 'notif_ver':
        return S.rfc_notification(2, 1)
    if ev == 'notif':
        assume(0 <= a < 256 and 0 <= b < 256)
        assume(not (a == 2 and b == 1))
        return S.rfc_notification(a, b)
    if ev == 'notif_then_more':
        # one TCP segment: a NOTIFICATION (which ends the session) followed by more messages - an unknown-type header, a
        # KEEPALIVE, an OPEN of the wrong AS: nothing after the NOTIFICATION may be acted upon
        assume(0 <= a < 256 and 0 <= b < 256)
        assume(not (a == 2 and b == 1))
        assume(0 <= c < 256 and c != 1 and c != 2 and c != 3 and c != 4 and c != 5 and c != 128)
        return S.rfc_notification(a, b) + S.MARKER + struct.pack('!H', 19) + bytes([c]) + S.KEEPALIVE + \
            S.rfc_open(4, 64999, 90, 0x0A000002, S.cap_as4(64999))
    if ev == 'rr':
        assume(0 <= a < 65536 and 0 <= b < 256)
        return S.rfc_route_refresh(a, b, 0, 5)
    if ev == 'rr128':
        assume(0 <= a < 65536 and 0 <= b < 256)
        return S.rfc_route_refresh(a, b, 0, 128)
    if ev == 'hdr_marker':
        assume(0 <= a < 255 and 0 <= b < 16)
        pos = cfg.get('marker_pos', 15)
        mk = b'\xff' * pos + bytes([a]) + b'\xff' * (15 - pos)
        return mk + struct.pack('!HB', 19, 4)
    if ev == 'hdr_len':
        assume(0 <= a < 65536 and (a < 19 or a > 4096))
        return S.MARKER + bytes([a // 256, a % 256, cfg.get('hdr_len_type', 4)])
    if ev == 'badlen':
        # a length that is inside 19..4096 but not allowed for the message type (RFC 4271 6.1): KEEPALIVE longer than
        # 19, UPDATE shorter than 23, NOTIFICATION shorter than 21, ROUTE-REFRESH shorter than 23; body octets symbolic
        typ, length = cfg.get('badlen', (4, 20))
        body = []
        for i, x in enumerate([a, b, c][:length - 19]):
            assume(0 <= x < 256)
            body.append(x)
        body += [0] * (length - 19 - len(body))
        return S.frame(typ, bytes(body))
    if ev == 'hdr_type':
        assume(0 <= a < 256 and a != 1 and a != 2 and a != 3 and a != 4 and a != 5 and a != 128)
        return S.MARKER + struct.pack('!H', 19) + bytes([a])
    raise AssertionError(ev)


def inject(w, ev, a, b, c):
    """run one environment / operator event through the real entry points"""
    FUEL.reset(200)
    if ev in MSG_EVENTS:
        w.ev_data(message_for(ev, w, a, b, c))
    elif ev == 'start_idlehold':
        w.ev_fire('idle_hold')
    elif ev == 'manual_start':
        w.ev_manual_start()
    elif ev == 'manual_stop':
        w.ev_manual_stop()
    elif ev == 'tcp_ok':
        w.ev_tcp_ok()
    elif ev == 'tcp_fail':
        w.ev_tcp_fail()
    elif ev == 'crt':
        w.ev_fire('connect_retry')
    elif ev == 'holdt':
        w.ev_fire('hold')
    elif ev == 'kat':
        w.ev_fire('keepalive')
    elif ev == 'peer_close':
        w.ev_conn_lost()
    elif ev == 'close_done':
        cs = [c for c in w.reactor.connectors if c.state == 'connected' and c.transport.disconnecting]
        w.ev_conn_lost(cs[0])
    else:
        raise AssertionError(ev)


def observe(w, mark):
    wire = w.wire(mark['wire'])
    writes = []
    for (_t, _time, data) in wire:
        writes.extend(S.split_types(data))
    opens = []
    for (_t, _time, data) in wire:
        i = 0
        while i + 19 <= len(data):
            ln = data[i + 16] * 256 + data[i + 17]
            if data[i + 18] == 1 and ln >= 29:
                opens.append((data[i + 19], data[i + 20] * 256 + data[i + 21], data[i + 22] * 256 + data[i + 23]))
            if ln < 19:
                break
            i += ln
    timers = {}
    for name in ('connect_retry', 'hold', 'keepalive', 'idle_hold'):
        timers[name] = (w.timer_deadline(name) - w.reactor.now) if w.timer_active(name) else None
    return {'state': w.state, 'writes': writes, 'opens': opens, 'timers': timers,
            'close': len(w.reactor.lose_log) - mark['lose'],
            'connects': len(w.reactor.connectors) - mark['conn'],
            'cbs': [h[0] for h in w.handler.log[mark['hlog']:]],
            'wire': wire}


# ---- bounded sequences from boot -----------------------------------------------------------------
TIMER_EVS = {'timer:connect_retry': 'connect_retry', 'timer:hold': 'hold', 'timer:keepalive': 'keepalive',
             'timer:idle_hold': 'idle_hold'}
TIMER_CLASS = {'connect_retry': 'crt', 'hold': 'holdt', 'keepalive': 'kat', 'idle_hold': 'start_idlehold'}


DEFAULT_VALS = {'open_ok': [90, 0x0A000002, 0], 'open_badver': [3, 90, 0], 'open_badas': [65009, 65009, 0],
                'open_hold12': [1, 0, 0], 'open_badparam': [1, 0, 0], 'upd_bad': [7, 0, 0], 'upd_trunc': [3, 0, 0], 'notif_then_more': [6, 2, 9], 'notif': [6, 2, 0],
                'rr': [1, 1, 0], 'rr128': [1, 1, 0], 'hdr_marker': [0, 0, 0], 'hdr_len': [18, 0, 0],
                'hdr_type': [9, 0, 0]}


def seq_vals(P, ev):
    return P.get('vals', {}).get(ev, DEFAULT_VALS.get(ev, [0, 0, 0]))


def applicable(w, ev):
    """can the environment / operator produce this event now?"""
    r = w.reactor
    if ev in ('tcp_ok', 'tcp_fail'):
        return len([c for c in r.connectors if c.state == 'connecting']) >= 1
    if ev in MSG_EVENTS or ev == 'peer_close':
        cs = [c for c in r.connectors if c.state == 'connected' and not c.transport.disconnecting]
        return len(cs) >= 1
    if ev == 'close_done':
        return len([c for c in r.connectors if c.state == 'connected' and c.transport.disconnecting]) >= 1
    if ev == 'timer':
        return len(r.active_calls()) > 0
    if ev in TIMER_EVS:
        name = TIMER_EVS[ev]
        if not w.timer_active(name):
            return False
        # only a timer with the earliest deadline may fire (ties in any order)
        t = w.timer_deadline(name)
        for other in ('connect_retry', 'hold', 'keepalive', 'delay_open', 'idle_hold'):
            if other != name and w.timer_active(other) and w.timer_deadline(other) < t:
                return False
        return True
    return True


def next_timer(w):
    best = None
    for name in ('connect_retry', 'hold', 'keepalive', 'delay_open', 'idle_hold'):
        if w.timer_active(name):
            t = w.timer_deadline(name)
            if best is None or t < best[0]:
                best = (t, name)
    return best[1]


def run_seq(P, idx, step_check, after_boot=None):
    """boot; automatic start; then k events chosen by the symbolic indices idx.  step_check(w, info)
    is evaluated after every step; info = dict(state=pre-state, ev=event class actually run, obs, hold, i)."""
    evs = P['alphabet']
    k = P['k']
    first = P.get('first')
    w = S.boot(P.get('cfg'))
    w.ev_auto_start()
    if after_boot is not None:
        after_boot(w)
    for i in range(k):
        e = idx[i]
        assume(0 <= e < len(evs))
        if i == 0 and first is not None:
            assume(e == first)
        if i == 1 and P.get('second') is not None:
            assume(e == P['second'])
        ev = evs[e]
        if not applicable(w, ev):
            assume(False)
        state = w.state
        hold = w.fsm.hold_time
        mark = w.mark()
        real_ev = ev
        if ev == 'timer' or ev in TIMER_EVS:
            name = next_timer(w) if ev == 'timer' else TIMER_EVS[ev]
            real_ev = TIMER_CLASS[name]
            w.ev_fire(name)
        elif ev in MSG_EVENTS:
            vals = seq_vals(P, ev)
            w.ev_data(message_for(ev, w, vals[0], vals[1], vals[2]))
        else:
            inject(w, ev, 0, 0, 0)
        obs = observe(w, mark)
        if not step_check(w, {'state': state, 'ev': real_ev, 'obs': obs, 'hold': hold, 'i': i, 'mark': mark}):
            return False
    cover('seq')
    return True
