"""C16 - REST control surface is authenticated and state-gated; sends are faithful."""
import struct

from vf.props.common import assume, cover, ob, same
from vf.ref import rfc_encode as E
from vf import session as S
from vf.env import rest

CLAIMED = True
P = {}
LEVEL_TEXT = ('Bounded symbolic verification through the real Flask view functions and decorators: (1) for every rule of the live URL '
              'map under /v1/peer/ and every method, with the client\'s (username, password) as symbolic strings of length <= 6 (or no '
              'credentials), the answer is 401 and nothing observable changes (FSM, transport log, connectors, RIBs, counters, '
              'handler log) unless both equal the configured pair; (2) with valid credentials every sending endpoint reports failure '
              'and writes nothing in every non-Established state; (3) a send reported successful has put exactly the requested '
              'message on the current transport: the bytes are compared attribute by attribute with an independent RFC encoding of '
              'the request with symbolic field values (+ LOCAL_PREF 100 iff remote AS = local AS, both symbolic).')
LEVEL_NOTE = ('Werkzeug header / JSON parsing, TLS and the WSGI thread hand-off are stubbed at get_auth / get_json / jsonify '
              '(vf/env/rest.py) and outside the claim; callFromThread runs inline.')
LEVEL_ADDED = 'Also: LOCAL_PREF symbolic (including 0 on iBGP); authentication obligations in Idle as well at the quick tier; OPTIONS where a rule lists it explicitly. Extended communities (route targets with symbolic administrator, colour) in the faithful-send obligations. IPv4-format route targets / origins in the faithful-send obligations; the gate right after a manual stop issued through the REST view.'
TECHNIQUE = 'symbolic execution of the Flask views with symbolic credentials and request fields (CrossHair+z3) on the session world; independent RFC encoder as oracle for the bytes sent'
EXPLANATION = 'C16: auth, state gate, faithful send through the real view functions.'
BOUNDS = 'credentials: symbolic strings up to 6 characters; all 11 rules x methods; 5 session states; send shapes: IPv4 unicast with 4 attributes, withdraw, VPNv4 MP_REACH, route refresh, raw binary'
ASSUMPTIONS = ['HTTP header / JSON parsing stubbed (vf/env/rest.py)', 'single-threaded: reactor.callFromThread executes inline']
BUDGET = {'quick': 300, 'thorough': 1200}

PEER = '10.0.0.2'
BODIES = {
    'v1.send_update_message': {'attr': {'1': 0, '2': [], '3': '10.0.0.1'}, 'nlri': ['10.1.0.0/16']},
    'v1.json_to_bin': {'attr': {'1': 0, '2': [], '3': '10.0.0.1'}, 'nlri': ['10.1.0.0/16']},
    'v1.send_route_refresh': {'afi': 1, 'safi': 1},
    'v1.send_bin_update': {'binary_data': 'ffffffffffffffffffffffffffffffff001304'},
    'v1.search_adj_rib_in': {'data': ['10.1.0.0/16']},
    'v1.search_adj_rib_out': {'data': ['10.1.0.0/16']},
}
SENDING = ('v1.send_update_message', 'v1.send_route_refresh', 'v1.send_bin_update')
GATED = SENDING + ('v1.json_to_bin', 'v1.search_adj_rib_in', 'v1.search_adj_rib_out')


def snapshot(w):
    p = w.fsm.protocol
    snap = [w.state, len(w.reactor.wire), len(w.reactor.lose_log), len(w.reactor.connectors), len(w.handler.log),
            w.fsm.allow_automatic_start, [w.timer_active(n) for n in sorted(w.timers())]]
    if p is not None:
        snap += [dict(p.msg_sent_stat), dict(p.msg_recv_stat), dict(p.send_version), dict(p.receive_version),
                 repr(sorted(p.adj_rib_out.get('ipv4', {}).items())), repr(sorted(p.adj_rib_in.get('ipv4', {}).items()))]
    return snap


def do_call(endpoint, method, creds, body=None, query=None, action='send'):
    args = {'peer_ip': PEER}
    path = '/v1/peer/%s/x' % PEER
    if endpoint == 'v1.get_peer_version':
        args['action'] = action
    return rest.call(endpoint, path, method, creds=creds, view_args=args,
                     body=body if body is not None else BODIES.get(endpoint), query=query)


def ob_auth(u: str, p: str) -> bool:
    """wrong / missing credentials: 401 and no effect; right credentials: not 401"""
    endpoint, method = P['endpoint'], P['method']
    mode = P['mode']
    w = S.in_state(P['state'], hold=90, cfgd={'rib': P.get('rib', False)})
    if mode == 'none':
        creds = None
    else:
        assume(len(u) <= 6 and len(p) <= 6)
        creds = (u, p)
    before = snapshot(w)
    r = do_call(endpoint, method, creds)
    if creds is not None and u == 'admin' and p == 'admin':
        cover('authorised')
        return r.status != 401
    cover('rejected')
    return r.status == 401 and same(snapshot(w), before)


def ob_gate(x: int) -> bool:
    """valid credentials, session not Established: sending endpoints report failure and do nothing"""
    endpoint = P['endpoint']
    w = S.in_state(P['state'], hold=90, allow_auto=P.get('auto', True), closing=P.get('closing', False))
    if P.get('after_stop'):
        # an operator stop has just been issued (through the REST view): from here on the session is not Established,
        # whether or not the TCP close has completed
        r0 = rest.call('v1.manual_stop', '/v1/peer/%s/manual-stop' % PEER, 'GET', creds=('admin', 'admin'), view_args={'peer_ip': PEER})
        if r0.status != 200:
            return False
    before = snapshot(w)
    r = do_call(endpoint, 'POST', ('admin', 'admin'))
    cover('called')
    if r.status != 200 or not isinstance(r.obj, dict) or r.obj.get('status') is not False:
        return False
    return same(snapshot(w), before)


def split_attrs(blob):
    """{code: raw TLV} of an attribute blob (independent splitter)"""
    out, i = {}, 0
    n = len(blob)
    while i < n:
        flags, code = blob[i], blob[i + 1]
        if (flags // 16) % 2:
            ln = blob[i + 2] * 256 + blob[i + 3]
            end = i + 4 + ln
        else:
            end = i + 3 + blob[i + 2]
        if code in out or end > n:
            return None
        out[code] = bytes(blob[i:end])
        i = end
    return out


def sent_update(w, mark):
    wire = w.wire(mark['wire'])
    if len(wire) != 1 or wire[0][0] is not w.fsm.protocol.transport:
        return None
    raw = wire[0][2]
    n = len(raw)
    if n < 23 or raw[:16] != b'\xff' * 16 or raw[16] * 256 + raw[17] != n or raw[18] != 2:
        return None
    body = raw[19:]
    wl = body[0] * 256 + body[1]
    al = body[2 + wl] * 256 + body[3 + wl]
    return bytes(body[2:2 + wl]), split_attrs(body[4 + wl:4 + wl + al]), bytes(body[4 + wl + al:])


def ob_send_update(med: int, a: int, b: int, las: int, ras: int, lp: int) -> bool:
    """POST send/update in Established: exactly the requested message (+ default LOCAL_PREF on iBGP) is written"""
    assume(0 <= med < 2 ** 32 and 0 <= a < 256 and 0 <= b < 256)
    assume(1 <= las < 65536 and 1 <= ras < 65536)
    if P.get('ibgp') is True:
        assume(las == ras)
    elif P.get('ibgp') is False:
        assume(las != ras)
    w = S.in_state(S.ESTABLISHED, hold=90, cfgd={'local_as': las, 'remote_as': ras,
                                                  'caps': dict(S.DEFAULT_CFG['caps'], four_bytes_as=False)})
    w.fsm.protocol.fourbytesas = False
    shape = P['shape']
    nh = [10, a, b, 1]
    exp_attrs = {1: E.origin(0), 2: E.as_path([(2, [las])], False), 3: E.next_hop(nh)}
    attr = {'1': 0, '2': [[2, [las]]], '3': '%s.%s.%s.%s' % (10, a, b, 1)}
    nlri, withdraw, exp_nlri, exp_wd = [], [], b'', b''
    if shape in ('announce', 'announce+lp', 'announce+withdraw', 'announce+ext', 'announce+ext-ip'):
        attr['4'] = med
        exp_attrs[4] = E.med(med)
        nlri = ['%s.%s.%s.%s/%s' % (172, a, 0, 0, 16)]
        exp_nlri = E.prefix([172, a], 16)
    if shape == 'announce+lp':
        assume(0 <= lp < 2 ** 32)
        attr['5'] = lp
        exp_attrs[5] = E.local_pref(lp)
    if shape == 'announce+ext':
        # route targets (symbolic administrator / number) next to a colour: all of them must be in the message
        assume(0 <= lp < 2 ** 32)
        attr['16'] = ['route-target:%s:%s' % (las, lp % 65536), 'color:%s' % lp, 'route-target:%s:%s' % (ras, 7)]
        exp_attrs[16] = E.ext_communities([[0, 2] + list(E.u16(las)) + list(E.u32(lp % 65536)),
                                           [3, 0x0b, 0, 0] + list(E.u32(lp)),
                                           [0, 2] + list(E.u16(ras)) + list(E.u32(7))])
    if shape == 'announce+ext-ip':
        # route target / route origin with an IPv4 administrator, and a route origin in AS format (for which the view
        # consults the capabilities the peer advertised)
        assume(0 <= lp < 65536)
        w.CONF.bgp.running_config['capability']['remote'] = {'four_bytes_as': False, 'route_refresh': True, 'afi_safi': [(1, 1)]}
        attr['16'] = ['route-origin:10.%s.%s.1:%s' % (a, b, lp), 'route-target:10.%s.%s.2:%s' % (b, a, 7), 'route-origin:%s:%s' % (ras, lp)]
        exp_attrs[16] = E.ext_communities([[1, 3, 10, a, b, 1] + list(E.u16(lp)), [1, 2, 10, b, a, 2] + list(E.u16(7)),
                                           [0, 3] + list(E.u16(ras)) + list(E.u32(lp))])
    if shape in ('withdraw', 'announce+withdraw'):
        withdraw = ['%s.%s.%s.%s/%s' % (192, 168, b, 0, 24)]
        exp_wd = E.prefix([192, 168, b], 24)
    if shape == 'withdraw':
        attr = {}
        exp_attrs = {}
    elif '5' not in attr and shape != 'withdraw':
        if las == ras:
            exp_attrs[5] = E.local_pref(100)
    body = {'attr': attr, 'nlri': nlri, 'withdraw': withdraw}
    mark = w.mark()
    sent0 = dict(w.fsm.protocol.msg_sent_stat)
    r = do_call('v1.send_update_message', 'POST', ('admin', 'admin'), body=body)
    if r.status != 200 or not isinstance(r.obj, dict) or r.obj.get('status') is not True:
        return False
    cover('sent')
    got = sent_update(w, mark)
    if got is None:
        return False
    wd, attrs, nl = got
    if attrs is None or wd != exp_wd or nl != exp_nlri:
        return False
    if set(attrs.keys()) != set(exp_attrs.keys()):
        return False
    for code in exp_attrs:
        if attrs[code] != exp_attrs[code]:
            return False
    return w.state == S.ESTABLISHED and w.fsm.protocol.msg_sent_stat['Updates'] == sent0['Updates'] + 1


def ob_send_vpn(med: int, lp: int) -> bool:
    """a VPNv4 MP_REACH update sent through the REST view equals the independent encoding.  The NLRI fields are
    enumerated shapes: update_send_version() turns them into a dictionary key (str of the route), which realises them."""
    assume(0 <= med < 2 ** 32 and 0 <= lp < 2 ** 32)
    label, ra, rb, a = P['label'], P['ra'], P['rb'], P['a']
    w = S.in_state(S.ESTABLISHED, hold=90)
    nlri = [{'label': [label], 'rd': '%s:%s' % (ra, rb), 'prefix': '%s.%s.%s.%s/%s' % (10, a, 0, 0, 16)}]
    body = {'attr': {'1': 0, '2': [], '4': med, '5': lp,
                     '14': {'afi_safi': [1, 128], 'nexthop': {'rd': '0:0', 'str': '10.0.0.9'}, 'nlri': nlri}}}
    lab = label * 16 + 1
    route = bytes([88 + 16]) + bytes([lab // 65536, (lab // 256) % 256, lab % 256]) + bytes([0, 0]) + E.u16(ra) + E.u32(rb) + \
        bytes([10, a])
    mp = struct.pack('!HBB', 1, 128, 12) + bytes(8) + bytes([10, 0, 0, 9]) + b'\x00' + route
    exp = {1: E.origin(0), 2: E.as_path([], True), 4: E.med(med), 5: E.local_pref(lp), 14: E.attr(14, mp, ext=True)}
    mark = w.mark()
    r = do_call('v1.send_update_message', 'POST', ('admin', 'admin'), body=body)
    if r.status != 200 or r.obj.get('status') is not True:
        return False
    cover('sent')
    got = sent_update(w, mark)
    if got is None or got[1] is None:
        return False
    return got[0] == b'' and got[2] == b'' and got[1] == exp


def ob_send_rr(afi: int, safi: int, res: int) -> bool:
    """route refresh: written iff the peer advertised the capability and the family; bytes as requested"""
    assume(0 <= afi < 65536 and 0 <= safi < 256 and 0 <= res < 256)
    w = S.in_state(S.ESTABLISHED, hold=90)
    remote = dict(P['remote'])
    if 'afi_safi' in remote:
        remote['afi_safi'] = [tuple(x) for x in remote['afi_safi']]
    w.CONF.bgp.running_config['capability']['remote'] = remote
    mark = w.mark()
    r = do_call('v1.send_route_refresh', 'POST', ('admin', 'admin'), body={'afi': afi, 'safi': safi, 'res': res})
    wire = w.wire(mark['wire'])
    has_rr = 'cisco_route_refresh' in remote or 'route_refresh' in remote
    fam_ok = (afi, safi) in remote.get('afi_safi', [])
    if r.status != 200:
        return False
    if has_rr and fam_ok:
        cover('sent')
        t = 128 if 'cisco_route_refresh' in remote else 5
        return r.obj is not False and len(wire) == 1 and \
            wire[0][2] == b'\xff' * 16 + bytes([0, 23, t]) + E.u16(afi) + bytes([res, safi])
    cover('refused')
    return len(wire) == 0


def ob_send_bin(x: int) -> bool:
    w = S.in_state(S.ESTABLISHED, hold=90)
    data = bytes(P['bytes'])
    mark = w.mark()
    r = do_call('v1.send_bin_update', 'POST', ('admin', 'admin'), body={'binary_data': data.hex()})
    wire = w.wire(mark['wire'])
    cover('sent')
    return r.status == 200 and r.obj.get('status') is True and len(wire) == 1 and wire[0][2] == data and \
        wire[0][0] is w.fsm.protocol.transport


def obligations(tier, seed):
    quick = tier == 'quick'
    from vf import loader
    loader.install(symbolic=False)
    S._conf()
    out = []
    rules = rest.peer_rules()
    states = [S.IDLE, S.ESTABLISHED] if quick else [S.IDLE, S.CONNECT, S.OPENSENT, S.OPENCONFIRM, S.ESTABLISHED]
    for (endpoint, rule, method, args) in rules:
        for st in states:
            if st in (S.IDLE, S.CONNECT) and endpoint in ('v1.get_peer_statistic', 'v1.get_peer_version'):
                continue      # no protocol object exists yet: the endpoint cannot answer (outside the property)
            for mode in ('sym', 'none'):
                covers = ['rejected'] + (['authorised'] if mode == 'sym' else [])
                out.append(ob('C16/auth/%s/%s/%s/%s' % (endpoint, method, S.STATE_NAMES[st], mode), 'ob_auth',
                              {'endpoint': endpoint, 'method': method, 'state': st, 'mode': mode}, covers=covers, cap=200))
    for endpoint in GATED:
        for st, extra in ((S.IDLE, {}), (S.IDLE, {'auto': False}), (S.IDLE, {'closing': True}), (S.CONNECT, {}), (S.OPENSENT, {}),
                          (S.OPENCONFIRM, {})):
            prm = {'endpoint': endpoint, 'state': st}
            prm.update(extra)
            out.append(ob('C16/gate/%s/%s%s' % (endpoint, S.STATE_NAMES[st], ''.join('/%s=%s' % kv for kv in extra.items())),
                          'ob_gate', prm, covers=['called']))
    for endpoint in GATED:
        for st in (S.ESTABLISHED, S.OPENCONFIRM):
            out.append(ob('C16/gate/%s/%s/after-manual-stop' % (endpoint, S.STATE_NAMES[st]), 'ob_gate',
                          {'endpoint': endpoint, 'state': st, 'after_stop': True}, covers=['called']))
    for shape in ('announce', 'announce+lp', 'withdraw', 'announce+withdraw', 'announce+ext', 'announce+ext-ip'):
        for ibgp in (True, False):
            out.append(ob('C16/send-update/%s/ibgp=%s' % (shape, ibgp), 'ob_send_update', {'shape': shape, 'ibgp': ibgp},
                          covers=['sent'], cap=250))
    for (label, ra, rb, a) in ((1, 0, 0, 0), (1048575, 65535, 4294967295, 255), (16, 100, 12, 7)):
        out.append(ob('C16/send-update/vpnv4/label=%d' % label, 'ob_send_vpn', {'label': label, 'ra': ra, 'rb': rb, 'a': a},
                      covers=['sent'], cap=250))
    remotes = {'none': {}, 'rr': {'route_refresh': True, 'afi_safi': [[1, 1], [1, 128]]},
               'rr-old': {'cisco_route_refresh': True, 'afi_safi': [[1, 1]]},
               'both': {'cisco_route_refresh': True, 'route_refresh': True, 'afi_safi': [[2, 1]]},
               'families-only': {'afi_safi': [[1, 1]]}}
    for name, rem in remotes.items():
        out.append(ob('C16/send-route-refresh/remote=%s' % name, 'ob_send_rr', {'remote': rem},
                      covers=['refused'] + (['sent'] if name in ('rr', 'rr-old', 'both') else []), cap=250))
    for name, data in (('keepalive', list(b'\xff' * 16 + bytes([0, 19, 4]))), ('one-octet', [0]), ('update', list(S.rfc_update_min()))):
        out.append(ob('C16/send-bin/%s' % name, 'ob_send_bin', {'bytes': data}, covers=['sent']))
    return out
