"""C03 - hold and keepalive timers keep exactly the negotiated contract.  Time is symbolic."""
from vf.props.common import assume, cover, ob
from vf.props import sess_common as SC
from vf import session as S

CLAIMED = True
P = {}
LEVEL_TEXT = ('Bounded symbolic verification with time as a solver variable: (a) deadline invariants, one step from invariant '
              'OpenSent/OpenConfirm/Established states with symbolic clock, negotiated/configured/proposed hold times and elapsed '
              'time - after each arrival the hold timer is due exactly H later, each keepalive expiry writes one KEEPALIVE and '
              're-arms H/3 later, the hold expiry writes NOTIFICATION(4,0) and closes at exactly its deadline, with H=0 no timer is '
              'armed, in OpenSent the deadline is 240 s; by induction over arrivals this gives the contract for every schedule; '
              '(b) bounded schedules of k arrivals with symbolic integer gaps checked against an oracle (alive iff every gap < H).')
LEVEL_NOTE = ('Virtual clock of the Twisted model; H/3 is exact rational arithmetic (IEEE rounding of H/3 assumed irrelevant); '
              'integer-second gaps; gaps bounded by 2H per arrival in (b).')
LEVEL_ADDED = 'Also: negotiation from a Connect state that still carries the hold time an earlier session negotiated. Tolerated malformed UPDATEs (bad ORIGIN, out-of-range length fields) in the deadline obligations: they restart the hold timer like any UPDATE.'
TECHNIQUE = 'symbolic execution with symbolic clock/deadlines (CrossHair+z3, exact rationals for H/3); one-step deadline invariants + bounded symbolic arrival schedules'
EXPLANATION = 'C03: deadline invariants and bounded arrival schedules with symbolic time.'
BOUNDS = 'H in {0} u [3,65535] symbolic; clock 0..10^6; elapsed < H/3; schedules of k<=2 (quick) / 3 (thorough) arrivals, gap <= 2H'
ASSUMPTIONS = ['H/3 exact (real arithmetic)', 'integer-second arrival gaps', 'Twisted callLater/reset/cancel contract as modelled']
BUDGET = {'quick': 300, 'thorough': 1200}

TOL = 1e-6


def eq(x, y):
    if isinstance(x, float) or isinstance(y, float):
        return abs(x - y) < TOL
    return x == y


def le(x, y):
    if isinstance(x, float) or isinstance(y, float):
        return x <= y + TOL
    return x <= y


def third(h):
    return h / 3


def ob_deadline(h: int, t0: int, e: int, x: int) -> bool:
    """one step; h = negotiated hold, t0 = when the timers were last armed, e = time elapsed since, x = event field"""
    state, ev = P['state'], P['ev']
    assume(0 <= t0 < 10 ** 6)
    if P.get('h0'):
        assume(h == 0)
    else:
        assume(3 <= h < 65536)
        assume(0 <= e and e * 3 < h)
    w = S.in_state(state, dict(P.get('cfg', {})), hold=h, now=t0)
    if not P.get('h0'):
        w.reactor.now = t0 + e
    now = w.reactor.now
    hold_dl0 = w.timer_deadline('hold') if w.timer_active('hold') else None
    ka_dl0 = w.timer_deadline('keepalive') if w.timer_active('keepalive') else None
    mark = w.mark()
    if ev in ('ka', 'upd', 'rr'):
        SC.inject(w, ev, 1, 1, 0)
    elif ev in ('upd_bad', 'upd_trunc'):
        # an UPDATE the agent tolerates (reported as malformed, session kept) is still a message from the peer
        SC.inject(w, ev, 7, 0, 0)
    elif ev == 'kat':
        w.ev_fire('keepalive')
    elif ev == 'holdt':
        w.ev_fire('hold')
    else:
        raise AssertionError(ev)
    obs = SC.observe(w, mark)
    cover('stepped')
    if P.get('h0'):
        # H = 0: no periodic keepalives, silence never ends the session: no session timer may be armed
        return w.state == (S.ESTABLISHED if ev != 'rr' or state == S.ESTABLISHED else state) and \
            not w.timer_active('hold') and not w.timer_active('keepalive') and obs['writes'] == [] and obs['close'] == 0
    if ev in ('ka', 'upd', 'upd_bad', 'upd_trunc'):
        if ev != 'ka' and state != S.ESTABLISHED:
            return True
        return w.state == S.ESTABLISHED and w.timer_active('hold') and eq(w.timer_deadline('hold'), now + h) and \
            w.timer_active('keepalive') and eq(w.timer_deadline('keepalive'), ka_dl0) and obs['writes'] == []
    if ev == 'rr':
        # ROUTE-REFRESH is not a KEEPALIVE/UPDATE: restarting the hold timer is not required; it must not shorten it
        return w.timer_active('hold') and le(hold_dl0, w.timer_deadline('hold'))
    if ev == 'kat':
        fired_at = w.reactor.now
        wire = obs['wire']
        return eq(fired_at, ka_dl0) and obs['writes'] == [(4,)] and len(wire) == 1 and eq(wire[0][1], ka_dl0) and \
            w.timer_active('keepalive') and eq(w.timer_deadline('keepalive'), ka_dl0 + third(h)) and \
            w.timer_active('hold') and eq(w.timer_deadline('hold'), hold_dl0) and w.state == state
    if ev == 'holdt':
        wire = obs['wire']
        return obs['writes'] == [(3, 4, 0)] and eq(wire[0][1], hold_dl0) and obs['close'] == 1 and \
            eq(w.reactor.lose_log[-1][1], hold_dl0) and w.state == S.IDLE and \
            not w.timer_active('hold') and not w.timer_active('keepalive')
    return False


def ob_open(conf: int, prop: int, t0: int) -> bool:
    """OpenSent + valid OPEN: negotiated H = min(configured, proposed) drives both timers from this instant"""
    assume(0 <= t0 < 10 ** 6)
    assume(conf == 0 or 3 <= conf < 65536)
    assume(prop == 0 or 3 <= prop < 65536)
    w = S.in_state(S.OPENSENT, {'hold_time': conf}, now=t0)
    mark = w.mark()
    w.ev_data(S.rfc_open(4, 65002, prop, 0x0A000002, S.cap_as4(65002)))
    obs = SC.observe(w, mark)
    h = conf if conf < prop else prop
    if w.state != S.OPENCONFIRM or obs['writes'] != [(4,)]:
        return False
    if h == 0:
        cover('h0')
        return not w.timer_active('hold') and not w.timer_active('keepalive')
    cover('h>0')
    return w.timer_active('hold') and eq(w.timer_deadline('hold'), t0 + h) and \
        w.timer_active('keepalive') and eq(w.timer_deadline('keepalive'), t0 + third(h)) and \
        eq(w.fsm.hold_time, h)


def ob_open_after_earlier(conf: int, prop: int, stale: int) -> bool:
    """a later session: Connect still carries the hold time an earlier session negotiated (0 or 3..configured); TCP
    comes up, the peer's OPEN arrives: H = min(configured, proposed) all the same"""
    assume(conf == 0 or 3 <= conf < 65536)
    assume(prop == 0 or 3 <= prop < 65536)
    assume(stale == 0 or 3 <= stale <= conf)
    w = S.in_state(S.CONNECT, {'hold_time': conf}, now=100, old_closed=True, stale_hold=stale)
    w.ev_tcp_ok()
    if w.state != S.OPENSENT:
        return False
    w.ev_data(S.rfc_open(4, 65002, prop, 0x0A000002, S.cap_as4(65002)))
    h = conf if conf < prop else prop
    if w.state != S.OPENCONFIRM:
        return False
    if h == 0:
        cover('h0')
        return not w.timer_active('hold') and not w.timer_active('keepalive')
    cover('h>0')
    return w.timer_active('hold') and eq(w.timer_deadline('hold'), 100 + h) and \
        w.timer_active('keepalive') and eq(w.timer_deadline('keepalive'), 100 + third(h)) and eq(w.fsm.hold_time, h)


def ob_opensent(t0: int, conf: int) -> bool:
    """while waiting for the peer's OPEN the limit is the fixed 4-minute large hold time"""
    assume(0 <= t0 < 10 ** 6)
    assume(conf == 0 or 3 <= conf < 65536)
    w = S.in_state(S.CONNECT, {'hold_time': conf}, now=t0)
    w.ev_tcp_ok()
    if not (w.state == S.OPENSENT and w.timer_active('hold') and eq(w.timer_deadline('hold'), t0 + 240)):
        return False
    mark = w.mark()
    w.ev_fire('hold')
    obs = SC.observe(w, mark)
    cover('fired')
    return obs['writes'] == [(3, 4, 0)] and eq(obs['wire'][0][1], t0 + 240) and obs['close'] == 1 and w.state == S.IDLE


# ---- bounded schedules ---------------------------------------------------------------------------
def run_until(w, t, timers_first, log):
    """let virtual time pass up to t: fire every session timer due before t (at t too iff timers_first)"""
    fuel = 40
    while fuel > 0:
        fuel -= 1
        best = None
        for name in ('hold', 'keepalive'):
            if w.timer_active(name):
                d = w.timer_deadline(name)
                if best is None or d < best[0]:
                    best = (d, name)
        if best is None:
            break
        due = best[0] < t or (timers_first and best[0] == t)
        if not due:
            break
        w.ev_fire(best[1])
        if w.state != S.ESTABLISHED:
            break
    if fuel == 0:
        raise AssertionError('timer loop fuel')
    if w.reactor.now < t:
        w.reactor.now = t


def ob_schedule(h: int, g1: int, g2: int, g3: int, tie: bool) -> bool:
    """Established at time 0 with negotiated hold h; k arrivals (KEEPALIVE or UPDATE per P) after gaps g_i."""
    k = P['k']
    kinds = P['kinds']
    gaps = [g1, g2, g3][:k]
    if P.get('h0'):
        assume(h == 0)
    else:
        assume(3 <= h < 65536)
    for g in gaps:
        assume(1 <= g)
        assume(g <= (2 * h if not P.get('h0') else 70000))
    w = S.in_state(S.ESTABLISHED, hold=h, now=0)
    t_last = 0
    alive = True
    mark0 = w.mark()
    for i in range(k):
        t = t_last + gaps[i]
        run_until(w, t, tie, None)
        expect_alive = P.get('h0') or gaps[i] < h or (gaps[i] == h and not tie)
        if not expect_alive:
            # silence for H seconds: NOTIFICATION(4,0) exactly at t_last + h, then closed
            obs = SC.observe(w, mark0)
            notes = [x for x in obs['wire'] if S.split_types(x[2]) == [(3, 4, 0)]]
            cover('expired')
            return w.state == S.IDLE and len(notes) == 1 and eq(notes[0][1], t_last + h) and \
                eq(w.reactor.lose_log[-1][1], t_last + h) and \
                [x for x in obs['wire'] if x[1] > t_last + h] == []
        if w.state != S.ESTABLISHED:
            return False
        SC.inject(w, kinds[i], 0, 0, 0)
        if w.state != S.ESTABLISHED:
            return False
        t_last = t
    obs = SC.observe(w, mark0)
    # alive all along: only KEEPALIVEs were written, and never more than h/3 apart (from time 0)
    times = [0]
    for (_t, tm, data) in obs['wire']:
        if S.split_types(data) != [(4,)]:
            return False
        times.append(tm)
    if P.get('h0'):
        cover('alive')
        return len(times) == 1 and obs['close'] == 0
    times.append(w.timer_deadline('keepalive'))
    for i in range(1, len(times)):
        if not le(times[i] - times[i - 1], third(h)):
            return False
    cover('alive')
    return obs['close'] == 0 and w.timer_active('hold') and eq(w.timer_deadline('hold'), t_last + h)


def obligations(tier, seed):
    quick = tier == 'quick'
    out = []
    for state, evs in ((S.ESTABLISHED, ['ka', 'upd', 'upd_bad', 'upd_trunc', 'rr', 'kat', 'holdt']), (S.OPENCONFIRM, ['ka', 'kat', 'holdt'])):
        for ev in evs:
            out.append(ob('C03/deadline/%s/%s' % (S.STATE_NAMES[state], ev), 'ob_deadline', {'state': state, 'ev': ev},
                          covers=['stepped']))
    for state, evs in ((S.ESTABLISHED, ['ka', 'upd', 'rr']), (S.OPENCONFIRM, ['ka'])):
        for ev in evs:
            out.append(ob('C03/deadline/%s/%s/H=0' % (S.STATE_NAMES[state], ev), 'ob_deadline',
                          {'state': state, 'ev': ev, 'h0': True}, covers=['stepped']))
    out.append(ob('C03/negotiate/OPENSENT/open_ok', 'ob_open', {}, covers=['h0', 'h>0']))
    out.append(ob('C03/negotiate/after-earlier-session', 'ob_open_after_earlier', {}, covers=['h0', 'h>0']))
    out.append(ob('C03/opensent/large-hold', 'ob_opensent', {}, covers=['fired']))
    ks = [1, 2] if quick else [1, 2, 3]
    for k in ks:
        for kinds in (['ka'] * k, ['upd'] * k, (['ka', 'upd', 'ka'])[:k]):
            tag = '-'.join(kinds)
            out.append(ob('C03/schedule/k=%d/%s' % (k, tag), 'ob_schedule', {'k': k, 'kinds': kinds},
                          covers=['alive', 'expired'], cap=280 if quick else 1100))
    out.append(ob('C03/schedule/H=0/k=2', 'ob_schedule', {'k': 2, 'kinds': ['ka', 'upd'], 'h0': True}, covers=['alive']))
    return out
