"""Helpers shared by the obligation modules."""
from vf.engine.driver import assume, cover, known, Refute  # noqa: F401

BOUNDARY32 = [0, 1, 2 ** 15, 2 ** 16 - 1, 2 ** 16, 2 ** 31, 2 ** 32 - 1]
BOUNDARY16 = [0, 1, 255, 256, 2 ** 15, 2 ** 16 - 1]
OCTETS = [0, 1, 10, 127, 128, 192, 255]


def ip4(v):
    """dotted quad of a (possibly symbolic) 32-bit value."""
    return '%s.%s.%s.%s' % (v // 16777216, (v // 65536) % 256, (v // 256) % 256, v % 256)


def ip4_octets(a, b, c, d):
    return '%s.%s.%s.%s' % (a, b, c, d)


def rng(v, hi, lo=0):
    assume(lo <= v)
    assume(v < hi)
    return v


def ob(oid, fn, params=None, cap=None, **kw):
    d = {'id': oid, 'fn': fn, 'params': params or {}}
    if cap:
        d['cap'] = cap
    d.update(kw)
    return d


def same(a, b):
    """structural equality that treats tuples and lists alike (JSON-ish)."""
    if isinstance(a, (list, tuple)) and isinstance(b, (list, tuple)):
        if len(a) != len(b):
            return False
        for x, y in zip(a, b):
            if not same(x, y):
                return False
        return True
    if isinstance(a, dict) and isinstance(b, dict):
        if set(a.keys()) != set(b.keys()):
            return False
        for k in a:
            if not same(a[k], b[k]):
                return False
        return True
    return a == b


def digit_classes(bits):
    """partition of [0, 2**bits) by decimal digit count"""
    out, lo = [], 0
    hi = 2 ** bits
    k = 10
    while lo < hi:
        out.append([lo, min(k, hi) - 1])
        lo, k = k, k * 10
    return out


def in_class(v, cls):
    """assume v lies in the digit class [lo, hi] (inclusive); None = unrestricted"""
    if cls is not None:
        assume(cls[0] <= v)
        assume(v <= cls[1])
    return v
