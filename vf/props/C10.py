"""C10 - hostile peer input is contained: no crash, no hang, no collateral damage."""
import struct

from vf.props.common import assume, cover, ob
from vf.props import sess_common as SC
from vf.props.C02 import reconnect_pending
from vf import session as S
from vf.loader import FUEL

CLAIMED = True
P = {}
LEVEL_TEXT = ('Bounded symbolic verification on the real protocol object in OpenSent / OpenConfirm / Established: one well-framed '
              'message of each type whose body octets are solver variables (structured UPDATE bodies: attribute type code '
              'enumerated over every code the decoder dispatches on plus unassigned ones, flag octet / length octets / value octets '
              'symbolic; hostile withdrawn-length, NLRI, OPEN optional-parameter, NOTIFICATION and ROUTE-REFRESH bodies) is '
              'delivered between two known-good UPDATEs: nothing escapes dataReceived (loop fuel = no hang), at most one report '
              'reaches the application for it, a malformed UPDATE never leaves Established, the good message after it decodes '
              'exactly as the one before it, and afterwards the agent is in session or closed with its reconnect pending.')
LEVEL_NOTE = ('Bodies are structured and short (<= 6 symbolic octets at session level); deep bodies are C11. Mutation corpora are outside '
              'this technique. Twisted as modelled.')
LEVEL_ADDED = 'Also: well-framed messages of unknown type; the hostile message arrives 20 s after the last one and a (malformed) UPDATE of legal length must restart the hold timer; UPDATE frames shorter than 23 octets are header errors. The hostile message with a good one behind it in the same TCP segment (differential against separate segments); BGP-LS MP_REACH / MP_UNREACH with hostile NLRI TLV headers. Obligations in which the close the agent asked for completes and the reconnection must still be scheduled; quick tier: MP_REACH / MP_UNREACH headers for arbitrary address families. A malformed UPDATE of exactly 4096 octets.'
TECHNIQUE = 'symbolic execution of BGP.dataReceived with symbolic message bodies between reference messages (CrossHair+z3), containment oracle'
EXPLANATION = 'C10: symbolic hostile bodies through dataReceived in each session state, containment oracle.'
BOUNDS = 'body <= 8 octets of which <= 6 symbolic; attribute type codes enumerated (24); states OpenSent/OpenConfirm/Established'
ASSUMPTIONS = ['Twisted contract as modelled', 'error-report text (repr of raw bytes) is cut by the engine extension; raw bytes themselves are compared in replay']
BUDGET = {'quick': 330, 'thorough': 3600}

ATTR_CODES = [1, 2, 3, 4, 5, 6, 7, 8, 9, 10, 14, 15, 16, 17, 18, 22, 23, 29, 32, 40, 99, 255]


def good_update(as4):
    seg = bytes([2, 1]) + (struct.pack('!I', 65002) if as4 else struct.pack('!H', 65002))
    attrs = bytes([0x40, 1, 1, 0]) + bytes([0x40, 2, len(seg)]) + seg + bytes([0x40, 3, 4, 10, 0, 0, 2])
    return S.frame(2, struct.pack('!H', 0) + struct.pack('!H', len(attrs)) + attrs + bytes([24, 192, 0, 2]))


def build_body(vals):
    """message type and body from the shape in P and the symbolic octets vals"""
    shape = P['shape']
    n = P.get('n', 0)
    v = list(vals[:n])
    for x in v:
        assume(0 <= x < 256)
    if shape == 'upd-attr':
        # wlen=0 | attr_len = 3+len(value) | flags S | type E | length octet S | value S...
        flags, length = v[0], v[1]
        value = v[2:]
        lim = len(value) + 1
        assume(length <= lim or length == 255)
        if P.get('ext'):
            assume(flags // 16 % 2 == 1)
            hdr = bytes([flags, P['code'], 0, length])
        else:
            assume(flags // 16 % 2 == 0)
            hdr = bytes([flags, P['code'], length])
        attrs = hdr + bytes(value)
        return 2, struct.pack('!HH', 0, len(attrs)) + attrs
    if shape == 'upd-lens':
        # the two length fields themselves are hostile
        return 2, bytes(v)
    if shape == 'upd-nlri':
        return 2, struct.pack('!HH', 0, 0) + bytes(v)
    if shape == 'upd-withdraw':
        return 2, struct.pack('!H', len(v)) + bytes(v) + struct.pack('!H', 0)
    if shape == 'open-params':
        return 1, struct.pack('!BHHIB', 4, 65002, 90, 0x0A000002, len(v)) + bytes(v)
    if shape == 'open-short':
        return 1, bytes(v)
    if shape == 'notification':
        return 3, bytes(v)
    if shape == 'rr':
        return P.get('rrtype', 5), bytes(v)
    if shape == 'keepalive-body':
        return 4, bytes(v)
    if shape == 'upd-mp-bgpls':
        # MP_REACH_NLRI / MP_UNREACH_NLRI for BGP-LS (AFI 16388, SAFI 71) whose NLRI TLV type and length are hostile
        t, ln = v[0] * 256 + v[1], v[2] * 256 + v[3]
        tlv = bytes([v[0], v[1], v[2], v[3]]) + bytes(v[4:])
        if P.get('unreach'):
            val = struct.pack('!HB', 16388, 71) + tlv
            attrs = bytes([0x80, 15, len(val)]) + val
        else:
            val = struct.pack('!HBB', 16388, 71, 4) + bytes([10, 0, 0, 9, 0]) + tlv
            attrs = bytes([0x80, 14, len(val)]) + val
        return 2, struct.pack('!HH', 0, len(attrs)) + attrs
    if shape == 'upd-max':
        # an UPDATE of the largest (or nearly the largest) legal size, P['size'] octets with its header, made of an
        # ORIGIN with a symbolic value and an unknown optional transitive attribute as filler
        fill = P['size'] - 19 - 4 - 4 - 4
        attrs = bytes([0x40, 1, 1, v[0]]) + bytes([0xd0, 99, fill // 256, fill % 256]) + bytes(fill)
        return 2, struct.pack('!HH', 0, len(attrs)) + attrs
    if shape == 'unknown-type':
        # a well-framed message whose type octet is not one the agent knows; v[0] is the type
        t = v[0]
        assume(t != 1 and t != 2 and t != 3 and t != 4 and t != 5 and t != 128)
        return t, bytes(v[1:])
    raise AssertionError(shape)


def ob_contain(b0: int, b1: int, b2: int, b3: int, b4: int, b5: int) -> bool:
    state = P['state']
    w = S.in_state(state, hold=P.get('hold', 90))
    p = w.fsm.protocol
    as4 = bool(p.fourbytesas)
    typ, body = build_body([b0, b1, b2, b3, b4, b5])
    M = S.frame(typ, body)
    G = good_update(as4)
    mark = w.mark()
    FUEL.reset(3 * (len(M) + 2 * len(G)) + 10)
    if state == S.ESTABLISHED:
        w.ev_data(G)
        if w.state != S.ESTABLISHED:
            return False
        log1 = w.handler.log[mark['hlog']:]
        if len(log1) != 1 or log1[0][0] != 'update_received':
            return False
    n1 = len(w.handler.log)
    # some time has passed since the last message (the hold timer was armed at 0)
    t_hostile = P.get('dt', 20)
    if w.fsm.hold_time and t_hostile < w.fsm.hold_time / 3:
        w.reactor.now = t_hostile
    hold_before = w.timer_deadline('hold') if w.timer_active('hold') else None
    # ---- the hostile message: nothing may escape ----------------------------------------------------------
    if P.get('same_segment'):
        # ... with a good UPDATE right behind it in the same TCP segment: the outcome must be the one of delivering the
        # two in separate segments, where nothing is delivered any more once the agent has closed the connection
        w.ev_data(M + G)
        one = ([h[0] for h in w.handler.log[n1:]], [S.split_types(d) for (_t, _tm, d) in w.wire(mark['wire'])], w.state)
        pending = reconnect_pending(w)
        w2 = S.in_state(state, hold=P.get('hold', 90))
        mark2 = w2.mark()
        if state == S.ESTABLISHED:
            w2.ev_data(G)
        n2 = len(w2.handler.log)
        if w2.fsm.hold_time and t_hostile < w2.fsm.hold_time / 3:
            w2.reactor.now = t_hostile
        w2.ev_data(M)
        c2 = w2._connected()
        if c2 is not None and c2.transport.connected and not c2.transport.disconnecting:
            w2.ev_data(G)
        two = ([h[0] for h in w2.handler.log[n2:]], [S.split_types(d) for (_t, _tm, d) in w2.wire(mark2['wire'])], w2.state)
        cover('delivered')
        return one == two and len(one[0]) <= 2 and pending
    w.ev_data(M)
    if typ == 2 and len(body) >= 4 and state == S.ESTABLISHED and w.state == S.ESTABLISHED and w.fsm.hold_time:
        # a malformed UPDATE is still a message from the peer: like any UPDATE it restarts the hold timer, otherwise a
        # peer that only sends (malformed) UPDATEs loses the session to the hold timer - torn down by a malformed body
        if not w.timer_active('hold') or w.timer_deadline('hold') != w.reactor.now + w.fsm.hold_time:
            return False
    # one reactor turn: whatever the message scheduled for "now" runs
    fuel = 4
    while fuel > 0:
        fuel -= 1
        due = [nm for nm in ('hold', 'keepalive', 'connect_retry') if w.timer_active(nm) and w.timer_deadline(nm) <= w.reactor.now]
        if not due:
            break
        w.ev_fire(due[0])
    reports = w.handler.log[n1:]
    if len(reports) > 1:
        return False
    cover('delivered')
    if typ == 2 and len(body) < 4:
        # shorter than the minimum UPDATE (23 octets): not an UPDATE body at all but a Message Header Error
        # (RFC 4271 6.1, C01 / C18) - nothing is reported, the session is closed with the NOTIFICATION
        cover('short-frame')
        if reports or w.state != S.IDLE:
            return False
    elif typ == 2 and state == S.ESTABLISHED:
        # a malformed UPDATE body never tears down an Established session and is reported with its raw bytes
        if w.state != S.ESTABLISHED:
            return False
        if reports and reports[0][0] == 'on_update_error':
            cover('update-error')
            if 'hex' not in reports[0][1]:
                return False
        elif reports and reports[0][0] != 'update_received':
            return False
    if w.state == S.ESTABLISHED and not w._connected().transport.disconnecting:
        # ---- the messages after it are decoded exactly as before ----------------------------------------------
        n2 = len(w.handler.log)
        w.ev_data(G)
        log2 = w.handler.log[n2:]
        if len(log2) != 1 or log2[0][0] != 'update_received':
            return False
        if state == S.ESTABLISHED and log2[0][1] != log1[0][1]:
            return False
        cover('after')
    # ---- in session, or closed cleanly with the reconnect scheduled ---------------------------------------------
    if not reconnect_pending(w):
        return False
    if P.get('deliver_close'):
        # ... and still scheduled once the close has completed
        for c_ in [x for x in w.reactor.connectors if x.state == 'connected' and x.transport.disconnecting]:
            w.ev_conn_lost(c_)
        if not reconnect_pending(w):
            return False
    if w.state == S.IDLE:
        cs = [c for c in w.reactor.connectors if c.state == 'connected']
        if cs and not cs[-1].transport.disconnecting:
            return False
    # timer callbacks that are still armed must not raise either
    for name in ('hold', 'keepalive', 'idle_hold', 'connect_retry'):
        if w.timer_active(name):
            w.ev_fire(name)
            break
    return True


def obligations(tier, seed):
    quick = tier == 'quick'
    out = []
    states = [S.ESTABLISHED] if quick else [S.OPENSENT, S.OPENCONFIRM, S.ESTABLISHED]
    for st in states:
        for code in ATTR_CODES:
            for nval in ([0, 2] if quick else [0, 1, 2, 3, 4]):
                for ext in ((False,) if quick and nval else (False, True)):
                    if 2 + nval > 6:
                        continue
                    out.append(ob('C10/%s/upd-attr/code=%d/val=%d/ext=%s' % (S.STATE_NAMES[st], code, nval, ext), 'ob_contain',
                                  {'state': st, 'shape': 'upd-attr', 'code': code, 'n': 2 + nval, 'ext': ext},
                                  covers=['delivered'], cap=200 if quick else 600))
    if quick:
        # MP_REACH / MP_UNREACH headers for arbitrary (also unknown) address families: found by the thorough tier
        for code in (14, 15):
            for nval in (3, 4):
                out.append(ob('C10/ESTABLISHED/upd-attr/code=%d/val=%d/ext=False' % (code, nval), 'ob_contain',
                              {'state': S.ESTABLISHED, 'shape': 'upd-attr', 'code': code, 'n': 2 + nval, 'ext': False},
                              covers=['delivered'], cap=250))
    # the same on a session that negotiated hold time 0 (no timers): a malformed UPDATE must not arm one
    for code in ((1, 2, 14) if quick else ATTR_CODES):
        for nval in (0, 2):
            out.append(ob('C10/ESTABLISHED-hold0/upd-attr/code=%d/val=%d' % (code, nval), 'ob_contain',
                          {'state': S.ESTABLISHED, 'shape': 'upd-attr', 'code': code, 'n': 2 + nval, 'ext': False, 'hold': 0},
                          covers=['delivered'], cap=200 if quick else 600))
    for st in ([S.OPENSENT, S.OPENCONFIRM, S.ESTABLISHED]):
        for n in ((1, 3) if quick else (1, 2, 3, 5)):
            out.append(ob('C10/%s/unknown-type/n=%d' % (S.STATE_NAMES[st], n), 'ob_contain',
                          {'state': st, 'shape': 'unknown-type', 'n': n}, covers=['delivered'], cap=200 if quick else 600))
    for st in ([S.OPENSENT, S.OPENCONFIRM, S.ESTABLISHED]):
        for shape, n in (('notification', 2), ('notification', 0), ('open-params', 2), ('unknown-type', 1), ('upd-lens', 4),
                         ('keepalive-body', 1), ('open-short', 3)):
            out.append(ob('C10/%s/%s/n=%d/same-segment' % (S.STATE_NAMES[st], shape, n), 'ob_contain',
                          {'state': st, 'shape': shape, 'n': n, 'same_segment': True}, covers=['delivered'],
                          cap=200 if quick else 600))
    for st in ([S.OPENSENT, S.OPENCONFIRM, S.ESTABLISHED]):
        for shape, n in (('notification', 2), ('open-params', 2), ('unknown-type', 1), ('keepalive-body', 1), ('rr', 5)):
            out.append(ob('C10/%s/%s/n=%d/close-completes' % (S.STATE_NAMES[st], shape, n), 'ob_contain',
                          {'state': st, 'shape': shape, 'n': n, 'deliver_close': True}, covers=['delivered'],
                          cap=200 if quick else 600))
    for size in ((4096,) if quick else (4095, 4096)):
        out.append(ob('C10/ESTABLISHED/upd-max/size=%d' % size, 'ob_contain',
                      {'state': S.ESTABLISHED, 'shape': 'upd-max', 'n': 1, 'size': size}, covers=['delivered'], cap=280 if quick else 600))
    for unreach in (False, True):
        for n in ((4, 5) if quick else (4, 5, 6)):
            out.append(ob('C10/ESTABLISHED/upd-mp-bgpls/unreach=%s/n=%d' % (unreach, n), 'ob_contain',
                          {'state': S.ESTABLISHED, 'shape': 'upd-mp-bgpls', 'n': n, 'unreach': unreach}, covers=['delivered'],
                          cap=250 if quick else 600))
    for shape, n in (('upd-lens', 4), ('upd-nlri', 2), ('upd-withdraw', 2), ('rr', 4), ('keepalive-body', 1)):
        out.append(ob('C10/ESTABLISHED-hold0/%s/n=%d' % (shape, n), 'ob_contain',
                      {'state': S.ESTABLISHED, 'shape': shape, 'n': n, 'hold': 0}, covers=['delivered'], cap=200 if quick else 600))
    for st in ([S.OPENSENT, S.OPENCONFIRM, S.ESTABLISHED]):
        shapes = [('upd-lens', n) for n in ((0, 1, 3, 4) if quick else (0, 1, 2, 3, 4, 5))]
        shapes += [('upd-nlri', n) for n in ((1, 2) if quick else (1, 2, 3, 5))]
        shapes += [('upd-withdraw', n) for n in ((1, 2) if quick else (1, 2, 3, 5))]
        shapes += [('open-params', n) for n in ((2, 4) if quick else (1, 2, 3, 4, 5, 6))]
        shapes += [('open-short', n) for n in ((0, 3) if quick else (0, 1, 3, 6))]
        shapes += [('notification', n) for n in ((0, 1, 2, 3) if quick else (0, 1, 2, 3, 4, 5))]
        shapes += [('rr', n) for n in ((0, 3, 4, 5) if quick else (0, 1, 2, 3, 4, 5))]
        shapes += [('keepalive-body', n) for n in (1, 2)]
        if quick and st != S.ESTABLISHED:
            shapes = [s for s in shapes if s[0] in ('upd-lens', 'open-params', 'notification', 'rr') and s[1] in (0, 2, 4)]
        for shape, n in shapes:
            out.append(ob('C10/%s/%s/n=%d' % (S.STATE_NAMES[st], shape, n), 'ob_contain',
                          {'state': st, 'shape': shape, 'n': n}, covers=['delivered'], cap=200 if quick else 600))
    return out
