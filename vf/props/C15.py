"""C15 - list decoders are compositional; attribute order is irrelevant."""
import itertools
import struct

from vf.props.common import assume, cover, ob, same
from vf.ref import rfc_encode as E

CLAIMED = True
P = {}
LEVEL_TEXT = ('Bounded symbolic verification: for each list kind (IPv4 / IPv6 prefix lists, labeled-unicast and VPN routes, EVPN routes, '
              'flowspec rules, communities / extended / large communities, cluster lists, AS_PATH segments, link-state attribute TLVs, '
              'Prefix-SID TLVs) two elements a, b of enumerated shapes with symbolic values are encoded by an independent encoder and '
              'the real decoder must satisfy decode(a||b) = decode(a) + decode(b); an unknown TLV between two known ones leaves them '
              'unchanged; permuting the path attributes of an UPDATE does not change what each decodes to.')
LEVEL_NOTE = 'Pairs: quick = every element shape at least once on each side; thorough = all pairs of the per-kind pools (boundary sub-pool for IPv6). OPEN capability packaging/ordering is decided in C14; BGP-LS NLRI descriptors are not covered (no independent encoder was written).'
LEVEL_ADDED = 'Also: attribute orders over attributes whose decoding depends on another attribute (BGP-LS per protocol id, EVPN overlay with PMSI), OPEN capability lists in the concatenation law, unknown EVPN route type and zero-length TLVs in the pools, the shortest element twice. Components inside one flowspec rule with operand widths 1/2/4/8; attribute orders with AS4_PATH in both AS modes. AS4_AGGREGATOR in the attribute orders; a 240-octet flowspec rule in the pool. IPv4 unicast prefix lists as carried in MP_REACH / MP_UNREACH (their own decoder).'
TECHNIQUE = 'symbolic execution of the list decoders on a, b and a||b (CrossHair+z3) with element encoders independent of yabgp'
EXPLANATION = 'C15: concatenation law per list kind, unknown-TLV insertion, attribute permutations.'
BOUNDS = 'element pools per kind (prefix lengths 0..32 / boundary set of 0..128, route types, TLV types); <= 6 symbolic octets / numbers per obligation'
ASSUMPTIONS = ['netaddr model for symbolic IPv4 text (ropes)', 'IPv6 address bits concretised']
BUDGET = {'quick': 330, 'thorough': 2400}


def octs(vals):
    for v in vals:
        assume(0 <= v < 256)
    return list(vals)


def label3(label, bos=1):
    v = label * 16 + bos
    return bytes([v // 65536, (v // 256) % 256, v % 256])


def enc_element(kind, shape, v):
    """encoding of one list element of the given kind/shape from symbolic values v (list of ints)"""
    if kind in ('prefix4', 'prefix4-mp'):
        return E.prefix(octs(v[:4]), shape)
    if kind == 'prefix6':
        addr = bytes.fromhex(shape['addr'])
        return bytes([shape['plen']]) + addr[:(shape['plen'] + 7) // 8]
    if kind == 'lu4':
        assume(1 <= v[4] < 2 ** 20)
        o = octs(v[:4])
        return bytes([24 + shape]) + label3(v[4]) + bytes(o[:(shape + 7) // 8])
    if kind == 'vpnv4':
        assume(1 <= v[4] < 2 ** 20 and 0 <= v[5] < 65536)
        o = octs(v[:4])
        rd = bytes([0, 0]) + E.u16(v[5]) + E.u32(7)
        return bytes([88 + shape]) + label3(v[4]) + rd + bytes(o[:(shape + 7) // 8])
    if kind == 'community':
        assume(0 <= v[0] < 65536 and 0 <= v[1] < 65536)
        return E.u16(v[0]) + E.u16(v[1])
    if kind == 'largecommunity':
        assume(0 <= v[0] < 2 ** 32 and 0 <= v[1] < 2 ** 32 and 0 <= v[2] < 2 ** 32)
        return E.u32(v[0]) + E.u32(v[1]) + E.u32(v[2])
    if kind == 'extcommunity':
        if shape == 'rt0':
            assume(0 <= v[0] < 65536 and 0 <= v[1] < 2 ** 32)
            return bytes([0, 2]) + E.u16(v[0]) + E.u32(v[1])
        if shape == 'rt1':
            o = octs(v[:4])
            assume(0 <= v[4] < 65536)
            return bytes([1, 2]) + bytes(o) + E.u16(v[4])
        if shape == 'color':
            assume(0 <= v[0] < 2 ** 32)
            return bytes([3, 0x0b, 0, 0]) + E.u32(v[0])
        if shape == 'unknown':
            o = octs(v[:4])
            return bytes([0x47, 0x11]) + bytes(o) + bytes([0, 0])
    if kind == 'clusterlist':
        return bytes(octs(v[:4]))
    if kind == 'aspath':
        t, n, as4 = shape
        hi = 2 ** 32 if as4 else 2 ** 16
        out = bytes([t, n])
        for i in range(n):
            assume(0 <= v[i] < hi)
            out += E.u32(v[i]) if as4 else E.u16(v[i])
        return out
    if kind == 'ls-tlv':
        t, n = shape
        if t == 1029:
            # IPv6 router id: its text is not modelled symbolically (RFC 5952) - concretised
            body = bytes.fromhex('20010db8000000000000000000000001')
        elif t == 1026:
            # node name: well formed means ASCII
            vals = octs(v[:n])
            for x in vals:
                assume(32 <= x < 127)
            body = bytes(vals)
        else:
            body = bytes(octs(v[:n])) if n <= 6 else bytes(octs(v[:6])) + bytes([1] * (n - 6))
        return E.u16(t) + E.u16(n) + body
    if kind == 'prefixsid':
        t, n = shape
        body = bytes(octs(v[:min(n, 6)])) + bytes([0] * max(0, n - 6))
        return bytes([t]) + E.u16(n) + body
    if kind == 'evpn':
        assume(0 <= v[0] < 65536 and 0 <= v[1] < 2 ** 32)
        rd = bytes([0, 1, 10, 0, 0, 1]) + E.u16(v[0])
        if shape == 3:
            body = rd + E.u32(v[1]) + bytes([32, 192, 168, 0, 1])
        elif shape == 1:
            assume(1 <= v[2] < 2 ** 20)
            body = rd + bytes(10) + E.u32(v[1]) + label3(v[2])
        elif shape == 4:
            body = rd + bytes([4]) + E.u32(v[1]) + E.u32(9) + bytes([0]) + bytes([32, 192, 168, 0, 1])
        elif shape in (6, 11):
            # a route type the decoder does not know (6 = SMET, RFC 9251): skipped, whatever stands next to it
            body = rd + E.u32(v[1]) + bytes([32, 10, 0, 0, 1])
        else:
            raise AssertionError(shape)
        return bytes([shape, len(body)]) + body
    if kind == 'flowspec' and shape[0] == 'long':
        # a rule of 240 octets or more: two-octet length 0xfnnn (RFC 5575 section 4)
        assume(0 <= v[0] < 256)
        rule = bytes([5]) + b''.join(bytes([0x11, 3, 232 + (i % 20)]) for i in range(shape[1] - 1)) + bytes([0x91, 3, v[0]])
        return bytes([0xf0 + len(rule) // 256, len(rule) % 256]) + rule
    if kind == 'flowspec':
        if shape[0] == 'prefix':
            o = octs(v[:4])
            rule = bytes([1, shape[1]]) + bytes(o[:(shape[1] + 7) // 8])
        else:
            assume(0 <= v[0] < 256)
            rule = bytes([shape[1], 0x81, v[0]])
        return bytes([len(rule)]) + rule
    if kind == 'fs-component':
        # one component of a flowspec rule: (type, operand width in octets); a rule is the list of its components
        comp, width = shape
        assume(0 <= v[0] < 256)
        code = {1: 0, 2: 1, 4: 2, 8: 3}[width]
        return bytes([comp, 0x80 + code * 16 + 1]) + bytes([0] * (width - 1)) + bytes([v[0]])
    if kind == 'capability':
        if shape == 'mp':
            assume(v[0] == 1 or v[0] == 2)
            assume(v[1] == 1 or v[1] == 4 or v[1] == 128)
            return bytes([1, 4]) + E.u16(v[0]) + bytes([0, v[1]])
        if shape == 'addpath':
            assume(v[0] == 1 or v[0] == 2)
            assume(1 <= v[1] <= 3)
            return bytes([69, 4]) + E.u16(v[0]) + bytes([1, v[1]])
        if shape == 'addpath2':
            assume(1 <= v[1] <= 3 and 1 <= v[2] <= 3)
            return bytes([69, 8]) + E.u16(1) + bytes([1, v[1]]) + E.u16(2) + bytes([1, v[2]])
        if shape == 'rr':
            return bytes([2, 0])
        if shape == 'as4':
            assume(1 <= v[0] < 2 ** 32)
            return bytes([65, 4]) + E.u32(v[0])
        if shape == 'unknown':
            assume(0 <= v[0] < 256)
            return bytes([99, 1, v[0]])
    raise AssertionError((kind, shape))


def decode_caps(data):
    """OPEN whose optional parameters are one capabilities parameter per capability in `data`"""
    from yabgp.message.open import Open
    params, i = b'', 0
    while i < len(data):
        n = 2 + data[i + 1]
        params += bytes([2, n]) + data[i:i + n]
        i += n
    body = bytes([4]) + E.u16(65001) + E.u16(90) + bytes([10, 0, 0, 2, len(params)]) + params
    caps = Open().parse(body)['capabilities']
    # as a list of (key, value) in a canonical order, list values flattened: concatenation of lists is then the law
    out = []
    for k in sorted(caps):
        if isinstance(caps[k], list):
            out.extend((k, x) for x in caps[k])
        elif k != '99':
            out.append((k, caps[k]))
        else:
            out.append((k, None))
    return out


def merge_caps(da, db):
    keys = sorted(set(k for k, _ in da) | set(k for k, _ in db))
    out = []
    for k in keys:
        xa = [x for kk, x in da if kk == k]
        xb = [x for kk, x in db if kk == k]
        if k in ('afi_safi', 'add_path'):
            out.extend((k, x) for x in xa + xb)
        else:
            out.append((k, (xb or xa)[-1]))
    return out


def decode(kind, shape, data):
    if kind == 'capability':
        return decode_caps(data)
    if kind == 'fs-component':
        from yabgp.message.attribute.nlri.ipv4_flowspec import IPv4FlowSpec
        d = IPv4FlowSpec.parse(data)
        return sorted(d.items())
    if kind == 'prefix4':
        from yabgp.message.update import Update
        return Update.parse_prefix_list(data)
    if kind == 'prefix4-mp':
        # IPv4 unicast carried in MP_REACH_NLRI / MP_UNREACH_NLRI (AFI 1, SAFI 1) has a decoder of its own
        from yabgp.message.attribute.nlri.ipv4_unicast import IPv4Unicast
        return IPv4Unicast.parse(data)
    if kind == 'prefix6':
        from yabgp.message.attribute.nlri.ipv6_unicast import IPv6Unicast
        return IPv6Unicast.parse(data)
    if kind == 'lu4':
        from yabgp.message.attribute.nlri.labeled_unicast.ipv4 import IPv4LabeledUnicast
        return IPv4LabeledUnicast.parse(data)
    if kind == 'vpnv4':
        from yabgp.message.attribute.nlri.ipv4_mpls_vpn import IPv4MPLSVPN
        return IPv4MPLSVPN.parse(data)
    if kind == 'community':
        from yabgp.message.attribute.community import Community
        return Community.parse(data)
    if kind == 'largecommunity':
        from yabgp.message.attribute.largecommunity import LargeCommunity
        return LargeCommunity.parse(data)
    if kind == 'extcommunity':
        from yabgp.message.attribute.extcommunity import ExtCommunity
        return ExtCommunity.parse(data)
    if kind == 'clusterlist':
        from yabgp.message.attribute.clusterlist import ClusterList
        return ClusterList.parse(data)
    if kind == 'aspath':
        from yabgp.message.attribute.aspath import ASPath
        return ASPath.parse(data, P['a'][2])
    if kind == 'ls-tlv':
        from yabgp.message.attribute.linkstate.linkstate import LinkState
        return LinkState.unpack(data, 1).value
    if kind == 'prefixsid':
        from yabgp.message.attribute.sr.bgpprefixsid import BGPPrefixSID
        return BGPPrefixSID.unpack(data)
    if kind == 'evpn':
        from yabgp.message.attribute.nlri.evpn import EVPN
        return EVPN.parse(data)
    if kind == 'flowspec':
        from yabgp.message.attribute.mpunreachnlri import MpUnReachNLRI
        return MpUnReachNLRI.parse(bytes([0, 1, 133]) + data)['withdraw']
    raise AssertionError(kind)


def ob_concat(a0: int, a1: int, a2: int, a3: int, a4: int, a5: int, b0: int, b1: int, b2: int, b3: int, b4: int, b5: int) -> bool:
    kind = P['kind']
    ea = enc_element(kind, P['a'], [a0, a1, a2, a3, a4, a5])
    eb = enc_element(kind, P['b'], [b0, b1, b2, b3, b4, b5])
    da = decode(kind, P['a'], ea)
    db = decode(kind, P['b'], eb)
    dab = decode(kind, None, ea + eb)
    cover('decoded')
    if kind == 'capability':
        return same(dab, merge_caps(da, db))
    return same(list(dab), list(da) + list(db))


def ob_unknown_between(a0: int, a1: int, a2: int, a3: int, u0: int, u1: int, t: int) -> bool:
    """an unknown TLV between two known ones does not change what the known ones decode to"""
    kind = P['kind']
    ea = enc_element(kind, P['a'], [a0, a1, a2, a3, 0, 0])
    eb = enc_element(kind, P['b'], [a3, a2, a1, a0, 0, 0])
    assume(0 <= u0 < 256 and 0 <= u1 < 256)
    if kind == 'ls-tlv':
        assume(2000 <= t < 65536)
        unk = E.u16(t) + E.u16(2) + bytes([u0, u1])
    else:
        assume(t == P.get('unk', 9))
        unk = bytes([t]) + E.u16(2) + bytes([u0, u1])
    da = decode(kind, None, ea)
    db = decode(kind, None, eb)
    dall = decode(kind, None, ea + unk + eb)
    cover('decoded')
    return len(dall) == 3 and same(dall[0], da[0]) and same(dall[2], db[0])


def pairs(pool, quick, seed):
    if not quick:
        return [(x, y) for x in pool for y in pool]
    n = len(pool)
    out = []
    for i, x in enumerate(pool):
        out.append((x, pool[(i + 1 + seed) % n]))
        out.append((pool[(i * 3 + 2 + seed) % n], x))
    seen, res = set(), []
    for p in out:
        k = repr(p)
        if k not in seen:
            seen.add(k)
            res.append(p)
    return res


def obligations(tier, seed):
    quick = tier == 'quick'
    out = []
    pools = {
        'prefix4': list(range(0, 33)),
        'prefix4-mp': list(range(0, 33)),
        'lu4': [0, 1, 8, 9, 16, 24, 25, 32] if quick else list(range(0, 33)),
        'vpnv4': [0, 1, 8, 9, 16, 24, 25, 32] if quick else list(range(0, 33)),
        'community': [None],
        'largecommunity': [None],
        'extcommunity': ['rt0', 'rt1', 'color', 'unknown'],
        'clusterlist': [None],
        'aspath': [(1, 1, False), (2, 2, False), (3, 0, False), (4, 3, False)],
        'ls-tlv': [(1028, 4), (1095, 3), (1092, 4), (1026, 5), (9999, 2), (1034, 12), (1029, 16), (9999, 0), (1096, 0)],
        'prefixsid': [(1, 7), (3, 8), (9, 2), (5, 0)],
        'evpn': [1, 3, 4, 6],
        'capability': ['mp', 'addpath', 'addpath2', 'rr', 'as4', 'unknown'],
        'flowspec': [('prefix', 24), ('prefix', 0), ('prefix', 9), ('op', 3), ('op', 5), ('long', 80)],
        'prefix6': [{'plen': pl, 'addr': ad} for pl in ([0, 1, 8, 9, 60, 64, 127, 128] if quick else
                                                       [0, 1, 7, 8, 9, 15, 16, 17, 32, 48, 59, 60, 61, 63, 64, 65, 96, 120, 127, 128])
                    for ad in ('20010db8000100020003000400050006',)],
    }
    # components inside one flowspec rule (types strictly increasing, every operand width incl. the 8 octets the agent
    # itself never emits)
    comps = [(3, 1), (5, 8), (6, 2), (7, 8), (10, 4), (11, 1)]
    for i, x in enumerate(comps):
        for y in comps[i + 1:]:
            if quick and (x[1] != 8 and y[1] != 8) and (i % 2):
                continue
            out.append(ob('C15/concat/fs-component/%s+%s' % (x, y), 'ob_concat', {'kind': 'fs-component', 'a': list(x), 'b': list(y)},
                          covers=['decoded'], cap=150 if quick else 500))
    for kind, pool in pools.items():
        full = not quick and len(pool) <= 40
        prs = pairs(pool, not full, seed)
        if kind in ('prefix6', 'prefix4', 'lu4', 'vpnv4') and (pool[0], pool[0]) not in prs:
            prs.append((pool[0], pool[0]))        # the shortest element twice (two default routes)
        for (x, y) in prs:
            prm = {'kind': kind, 'a': x, 'b': y}
            if kind == 'aspath':
                for as4 in (False, True):
                    xa, ya = (x[0], x[1], as4), (y[0], y[1], as4)
                    out.append(ob('C15/concat/%s/%s+%s/as4=%s' % (kind, x[:2], y[:2], as4), 'ob_concat',
                                  {'kind': kind, 'a': xa, 'b': ya}, covers=['decoded']))
                continue
            tag = lambda z: (('%d-%s' % (z['plen'], z['addr'][:4])) if isinstance(z, dict) else str(z)).replace(' ', '')  # noqa
            out.append(ob('C15/concat/%s/%s+%s' % (kind, tag(x), tag(y)), 'ob_concat', prm, covers=['decoded'],
                          cap=150 if quick else 500))
    for (x, y) in (((1028, 4), (1095, 3)), ((1095, 3), (1028, 4)), ((1092, 4), (1092, 4))):
        out.append(ob('C15/unknown-between/ls-tlv/%s-%s' % (x[0], y[0]), 'ob_unknown_between', {'kind': 'ls-tlv', 'a': x, 'b': y},
                      covers=['decoded']))
    for (x, y) in (((1, 7), (3, 8)), ((3, 8), (1, 7))):
        out.append(ob('C15/unknown-between/prefixsid/%s-%s' % (x[0], y[0]), 'ob_unknown_between',
                      {'kind': 'prefixsid', 'a': x, 'b': y, 'unk': 9}, covers=['decoded']))
    # attribute permutations: shared with C09's order obligations (all orders of groups of 3 / 4, up to 5 in thorough)
    from vf.props import C09
    groups = [['origin', 'nexthop', 'med'], ['community', 'localpref', 'aspath']]
    if not quick:
        groups.append(['origin', 'aspath', 'nexthop', 'med', 'localpref'])
    for g in groups:
        for pm in itertools.permutations(g):
            out.append(ob('C15/attr-order/%s' % '-'.join(pm), 'ob_attr_order', {'attrs': list(pm), 'base': g},
                          covers=['decoded'], cap=150 if quick else 500))
    # attributes whose decoding depends on another attribute of the same UPDATE: BGP-LS (the attribute TLVs are read
    # according to the protocol id of the NLRI in MP_REACH_NLRI) and EVPN overlay (PMSI label read as a VNI when an
    # encapsulation extended community accompanies an EVPN MP_REACH_NLRI)
    for pro in ((1, 3) if quick else (1, 2, 3, 6)):
        g = ['origin', 'mp-bgpls', 'linkstate']
        for pm in itertools.permutations(g):
            out.append(ob('C15/attr-order/pro=%d/%s' % (pro, '-'.join(pm)), 'ob_attr_order_x', {'attrs': list(pm), 'base': g, 'pro': pro},
                          covers=['decoded'], cap=150 if quick else 500))
        if not quick:
            g = ['origin', 'linkstate', 'localpref', 'mp-bgpls']
            for pm in itertools.permutations(g):
                out.append(ob('C15/attr-order/pro=%d/%s' % (pro, '-'.join(pm)), 'ob_attr_order_x',
                              {'attrs': list(pm), 'base': g, 'pro': pro}, covers=['decoded'], cap=500))
    g = ['as4_aggregator', 'aspath', 'aggregator']
    for pm in itertools.permutations(g):
        out.append(ob('C15/attr-order/asn4=False/%s' % '-'.join(pm), 'ob_attr_order', {'attrs': list(pm), 'base': g, 'asn4': False},
                      covers=['decoded'], cap=150 if quick else 500))
    for asn4 in (False, True):
        g = ['nexthop', 'med', 'as4_path'] if asn4 else ['as4_path', 'aspath', 'med']
        for pm in itertools.permutations(g):
            out.append(ob('C15/attr-order/asn4=%s/%s' % (asn4, '-'.join(pm)), 'ob_attr_order', {'attrs': list(pm), 'base': g, 'asn4': asn4},
                          covers=['decoded'], cap=150 if quick else 500))
    g = ['mp-evpn', 'ext-encap', 'pmsi']
    for pm in itertools.permutations(g):
        out.append(ob('C15/attr-order/%s' % '-'.join(pm), 'ob_attr_order_x', {'attrs': list(pm), 'base': g},
                      covers=['decoded'], cap=150 if quick else 500))
    return out


def raw_attr(name, v):
    """one complete attribute TLV of a cross-dependent group from the symbolic values v"""
    def tlv(t, body):
        return E.u16(t) + E.u16(len(body)) + body

    def attr(flags, code, body):
        if len(body) > 255:
            return bytes([flags | 0x10, code]) + E.u16(len(body)) + body
        return bytes([flags, code, len(body)]) + body
    if name == 'origin':
        assume(0 <= v[0] <= 2)
        return attr(0x40, 1, bytes([v[0]]))
    if name == 'localpref':
        assume(0 <= v[1] < 2 ** 32)
        return attr(0x40, 5, E.u32(v[1]))
    if name == 'mp-bgpls':
        assume(1 <= v[2] < 2 ** 32)

        def node(code, iso):
            return tlv(code, tlv(512, E.u32(v[2])) + tlv(515, bytes(iso)))
        body = bytes([P['pro']]) + bytes(8) + node(256, [0, 0, 0, 0, 0, 1]) + node(257, [0, 0, 0, 0, 0, 3]) + \
            tlv(259, bytes([1, 3, 0, 1])) + tlv(260, bytes([1, 3, 0, 2]))
        return attr(0x80, 14, E.u16(16388) + bytes([71, 4, 10, 75, 44, 254, 0]) + tlv(2, body))
    if name == 'linkstate':
        assume(0 <= v[3] < 2 ** 32 and 16 <= v[4] < 2 ** 20)
        lab = bytes([v[4] // 65536, (v[4] // 256) % 256, v[4] % 256])
        adj = tlv(1099, bytes([0x30, 0, 0, 0]) + lab)
        return attr(0x80, 29, tlv(1092, E.u32(v[3])) + tlv(60000, bytes([0xde, 0xad])) + adj)
    if name == 'mp-evpn':
        assume(0 <= v[0] < 2 ** 24)
        rd = bytes([0, 1, 10, 0, 0, 1, 0, 7])
        lab = bytes([v[0] // 65536, (v[0] // 256) % 256, v[0] % 256])
        route = rd + bytes(10) + E.u32(100) + bytes([48, 0, 17, 34, 51, 68, 85]) + bytes([0]) + lab
        return attr(0x80, 14, E.u16(25) + bytes([70, 4, 10, 0, 0, 9, 0]) + bytes([2, len(route)]) + route)
    if name == 'ext-encap':
        assume(0 <= v[1] < 16)
        return attr(0xc0, 16, bytes([3, 0x0c, 0, 0, 0, 0, 0, v[1]]))
    if name == 'pmsi':
        assume(0 <= v[2] < 2 ** 24)
        lab = bytes([v[2] // 65536, (v[2] // 256) % 256, v[2] % 256])
        return attr(0xc0, 22, bytes([0, 6]) + lab + bytes([10, 0, 0, 9]))
    raise AssertionError(name)


def ob_attr_order_x(a: int, b: int, c: int, d: int, e: int) -> bool:
    from yabgp.message.update import Update
    v = [a, b, c, d, e]
    enc = dict((name, raw_attr(name, v)) for name in P['base'])
    base_blob = b''.join(enc[n] for n in P['base'])
    perm_blob = b''.join(enc[n] for n in P['attrs'])
    o1 = Update.parse(None, E.update_body(b'', base_blob, b''), True, {})
    o2 = Update.parse(None, E.update_body(b'', perm_blob, b''), True, {})
    cover('decoded')
    return o1['sub_error'] is None and o2['sub_error'] is None and same(o1['attr'], o2['attr'])


def ob_attr_order(a: int, b: int, c: int, d: int, e: int) -> bool:
    """the same attributes in the permuted order decode to the same values as in the base order"""
    from yabgp.message.update import Update
    from vf.props import C09
    v = [a, b, c, d, e]
    C09.P = {'segs': [(2, 2)]}
    enc = {}
    for i, name in enumerate(P['base']):
        vv = v[i:] + v[:i]
        code, data, _chk = C09.build_attr(name, vv, P.get('asn4', False), False)
        enc[name] = (code, data)
    base_blob = b''.join(enc[n][1] for n in P['base'])
    perm_blob = b''.join(enc[n][1] for n in P['attrs'])
    o1 = Update.parse(None, E.update_body(b'', base_blob, b''), P.get('asn4', False), {})
    o2 = Update.parse(None, E.update_body(b'', perm_blob, b''), P.get('asn4', False), {})
    cover('decoded')
    return o1['sub_error'] is None and o2['sub_error'] is None and same(o1['attr'], o2['attr'])
