"""C19 - Adj-RIB-In and the version counters track exactly the updates applied."""
import struct

from vf.props.common import assume, cover, ob, same
from vf.ref import rfc_encode as E
from vf import session as S
from vf.env import rest

CLAIMED = True
P = {}
LEVEL_TEXT = ('Bounded symbolic verification, inductive over the RIB: from an *arbitrary pre-RIB* over a pool of IPv4 prefixes (which '
              'entries are present: enumerated; their LOCAL_PREF values and the version counter: symbolic) one received UPDATE with a '
              'symbolic withdraw subset, symbolic announce subset and symbolic attribute value is delivered through dataReceived with '
              'RIB maintenance on; the post-RIB must equal a dictionary model (withdrawals then announcements, last attributes win), '
              'the version counter must rise iff the table changed, the application must see the update; the same for the send side '
              'through the REST update view, for flowspec and VPNv4 version counters (symbolic attribute values, enumerated rules), '
              'for the flush on connectionLost, and along symbolic sequences of three updates from an empty RIB.')
LEVEL_NOTE = 'Prefixes / flowspec rules / VPN routes are dictionary keys in the implementation (string keys), hence enumerated; attribute values and subsets are symbolic. py-radix replaced by an exact-match model.'
LEVEL_ADDED = "Also: what is received must not touch the send-side table / counter and vice versa; one UPDATE carrying MP_REACH and MP_UNREACH; change-then-repeat of the same announcement. The same prefix in WITHDRAWN ROUTES and NLRI of one UPDATE (the announcement counts); one MP_UNREACH withdrawing an absent and a present rule. IPv4 NLRI / withdrawn routes travelling with an MP attribute; flowspec send version through the REST view for rules with one- and two-digit component types. A prefix listed twice in one UPDATE's withdrawn routes (exact version step); prefixes announced with non-zero trailing bits, then re-announced / withdrawn clean."
TECHNIQUE = 'symbolic one-step RIB relation from arbitrary pre-RIBs + bounded symbolic update sequences (CrossHair+z3) against a dictionary model'
EXPLANATION = 'C19: RIB / version-counter step relation vs a dictionary model.'
BOUNDS = 'pool of 3 IPv4 prefixes (8 pre-RIB shapes) x symbolic subsets; 2 flowspec rules, 2 VPNv4 routes; sequences of 3 updates'
ASSUMPTIONS = ['radix model (vf/env/radix_stub.py): exact match only on this path', 'an UPDATE does not list the same prefix as withdrawn and announced']
BUDGET = {'quick': 300, 'thorough': 900}

POOL = [('10.1.0.0/16', [10, 1], 16), ('192.0.2.0/24', [192, 0, 2], 24), ('0.0.0.0/0', [], 0)]


def attrs_for(lp, as4=True):
    enc = E.origin(0) + E.as_path([(2, [65002])], as4) + E.next_hop([10, 0, 0, 2]) + E.local_pref(lp)
    dec = {1: 0, 2: [(2, [65002])], 3: '10.0.0.2', 5: lp}
    return enc, dec


def _pfx(i):
    octs, plen = list(POOL[i][1]), POOL[i][2]
    if P.get('dirty') and plen == 16:
        # 10.1.0.0/16 written as the /15 ... no: same prefix, but carried with a longer octet string is not legal; instead
        # the pool's /16 is sent as 10.1/16 and the trailing-bit variant is exercised on an extra /15 below
        pass
    return E.prefix(octs, plen)


def update_bytes(withdraw_idx, announce_idx, lp):
    wd = b''.join(_pfx(i) for i in withdraw_idx)
    nl = b''.join(_pfx(i) for i in announce_idx)
    if P.get('dup_withdraw'):
        wd = wd + wd          # every withdrawn prefix listed twice in the same UPDATE: still one change each
    enc, dec = attrs_for(lp)
    mp = b''
    if P.get('with_mp') == 'unreach':
        # an IPv6 MP_UNREACH_NLRI travelling in the same UPDATE as the IPv4 fields (legal, unusual)
        mp = E.attr(15, E.u16(2) + bytes([1, 32]) + bytes.fromhex('20010db8'))
        dec = dict(dec)
        dec[15] = {'afi_safi': (2, 1), 'withdraw': ['2001:db8::/32']}
    elif P.get('with_mp') == 'reach':
        mp = E.attr(14, E.u16(2) + bytes([1, 16]) + bytes.fromhex('20010db8000000000000000000000001') + bytes([0, 32]) +
                    bytes.fromhex('20010db8'))
        dec = dict(dec)
        dec[14] = {'afi_safi': (2, 1), 'nexthop': '2001:db8::1', 'nlri': ['2001:db8::/32']}
    if not announce_idx and mp:
        dec = {k: v for k, v in dec.items() if k in (14, 15)}
    return S.frame(2, E.update_body(wd, (enc if announce_idx else b'') + mp, nl)), dec


def world(rib=True):
    w = S.in_state(S.ESTABLISHED, hold=90, cfgd={'rib': rib})
    w.fsm.protocol.fourbytesas = True
    return w


def ob_rib_in(w0: bool, w1: bool, w2: bool, a0: bool, a1: bool, a2: bool, lp: int, p0: int, p1: int, ver: int) -> bool:
    """arbitrary pre-RIB (presence pattern P['present'], symbolic attribute values) + one UPDATE"""
    assume(0 <= lp < 2 ** 32 and 0 <= p0 < 2 ** 32 and 0 <= p1 < 2 ** 32 and 0 <= ver < 2 ** 31)
    wsel, asel = [w0, w1, w2], [a0, a1, a2]
    # (the same prefix may stand in both fields of one UPDATE: RFC 4271 section 4.3 - the announcement counts)
    present = P['present']
    w = world()
    p = w.fsm.protocol
    pre_vals = [p0, p1, p0]
    model = {}
    for i in range(3):
        if present[i]:
            _e, dec = attrs_for(pre_vals[i])
            p.adj_rib_in['ipv4'][POOL[i][0]] = dec
            p.adj_rib_in_ipv4_tree.add(POOL[i][0])
            model[POOL[i][0]] = dec
    p.receive_version['ipv4'] = ver
    widx = [i for i in range(3) if wsel[i]]
    aidx = [i for i in range(3) if asel[i]]
    assume(len(widx) + len(aidx) > 0)
    msg, dec = update_bytes(widx, aidx, lp)
    # ---- dictionary model -----------------------------------------------------------------------
    changed = False
    for i in widx:
        if POOL[i][0] in model:
            del model[POOL[i][0]]
            changed = True
    for i in aidx:
        k = POOL[i][0]
        if k not in model or not same(model[k], dec):
            changed = True
        model[k] = dec
    mark = w.mark()
    w.ev_data(msg)
    log = w.handler.log[mark['hlog']:]
    cover('delivered')
    if len(log) != 1 or log[0][0] != 'update_received' or w.state != S.ESTABLISHED:
        return False
    rib = p.adj_rib_in['ipv4']
    if set(rib.keys()) != set(model.keys()):
        return False
    for k in model:
        if not same(rib[k], model[k]):
            return False
    # the other direction's table and counter are not touched by what is received
    if len(p.adj_rib_out['ipv4']) != 0 or p.send_version['ipv4'] != 0:
        return False
    v2 = p.receive_version['ipv4']
    if P.get('dup_withdraw') and not aidx:
        # listing a prefix twice is one removal: as many steps as a clean list would take
        return v2 - ver == len([i for i in widx if present[i]])
    if changed:
        return v2 > ver
    return v2 == ver


def ob_rib_trailing(a: int, b: int, lp: int) -> bool:
    """a prefix announced with non-zero bits after its length (RFC 4271: irrelevant) and then withdrawn / re-announced with
    clean bits is one and the same route: one entry, keyed by the canonical prefix"""
    assume(0 <= lp < 2 ** 32)
    # (the prefix becomes a dictionary key, which the engine realises: octets are shapes, not symbols)
    a, b = P['octets']
    plen = P.get('plen', 23)
    w = world()
    p = w.fsm.protocol
    enc, dec = attrs_for(lp)
    dirty = bytes([plen, 10, a, b])
    k = 2 ** (24 - plen)
    clean = bytes([plen, 10, a, (b // k) * k])
    key = '%s.%s.%s.%s/%s' % (10, a, (b // k) * k, 0, plen)
    w.ev_data(S.frame(2, E.update_body(b'', enc, dirty)))
    cover('delivered')
    if set(p.adj_rib_in['ipv4'].keys()) != {key}:
        return False
    v1 = p.receive_version['ipv4']
    w.ev_data(S.frame(2, E.update_body(b'', enc, clean)))       # the same route, same attributes: no change
    if set(p.adj_rib_in['ipv4'].keys()) != {key} or p.receive_version['ipv4'] != v1:
        return False
    w.ev_data(S.frame(2, E.update_body(clean, b'', b'')))
    return len(p.adj_rib_in['ipv4']) == 0 and p.receive_version['ipv4'] > v1


def ob_rib_flush(x: int) -> bool:
    """the Adj-RIB-In is empty after the session drops, and a new session starts empty"""
    w = world()
    p = w.fsm.protocol
    msg, _ = update_bytes([], [0, 1], 100)
    w.ev_data(msg)
    if len(p.adj_rib_in['ipv4']) != 2:
        return False
    if P['how'] == 'peer-close':
        w.ev_conn_lost()
    else:
        w.ev_data(S.rfc_notification(6, 2))
        w.ev_conn_lost()
    cover('dropped')
    return p.adj_rib_in['ipv4'] == {} and p.adj_rib_out['ipv4'] == {}


def ob_rib_seq(c0: int, c1: int, c2: int, v0: int, v1: int, v2: int) -> bool:
    """three UPDATEs from an empty RIB, each announcing or withdrawing one pool prefix (symbolic choice, symbolic value)"""
    w = world()
    p = w.fsm.protocol
    model, ver = {}, 0
    for (c, v) in ((c0, v0), (c1, v1), (c2, v2)):
        assume(0 <= c < 6 and 0 <= v < 2 ** 32)
        i, is_wd = c % 3, c >= 3
        if is_wd:
            msg, dec = update_bytes([i], [], v)
            ch = POOL[i][0] in model
            model.pop(POOL[i][0], None)
        else:
            msg, dec = update_bytes([], [i], v)
            ch = POOL[i][0] not in model or not same(model[POOL[i][0]], dec)
            model[POOL[i][0]] = dec
        w.ev_data(msg)
        rib = p.adj_rib_in['ipv4']
        if set(rib.keys()) != set(model.keys()):
            return False
        for k in model:
            if not same(rib[k], model[k]):
                return False
        nv = p.receive_version['ipv4']
        if (ch and not nv > ver) or (not ch and nv != ver):
            return False
        ver = nv
    cover('seq')
    return True


def ob_rib_out(lp: int, p0: int, sel: int, ver: int) -> bool:
    """send side through the REST update view with RIB maintenance on"""
    assume(0 <= lp < 2 ** 32 and 0 <= p0 < 2 ** 32 and 0 <= sel < 4 and 0 <= ver < 2 ** 31)
    w = world()
    p = w.fsm.protocol
    present = P['present']
    model = {}
    for i in range(2):
        if present[i]:
            val = {1: 0, 2: [], 3: '10.0.0.1', 5: p0}
            p.adj_rib_out['ipv4'][POOL[i][0]] = val
            model[POOL[i][0]] = val
    p.send_version['ipv4'] = ver
    announce = [POOL[i][0] for i in range(2) if (sel >> i) & 1 and P['mode'] == 'announce']
    withdraw = [POOL[i][0] for i in range(2) if (sel >> i) & 1 and P['mode'] == 'withdraw']
    assume(len(announce) + len(withdraw) > 0)
    attr = {'1': 0, '2': [], '3': '10.0.0.1', '5': lp}
    dec = {1: 0, 2: [], 3: '10.0.0.1', 5: lp}
    body = {'attr': attr if announce else {}, 'nlri': announce, 'withdraw': withdraw}
    changed = False
    for k in withdraw:
        if k in model:
            del model[k]
            changed = True
    for k in announce:
        if k not in model or not same(model[k], dec):
            changed = True
        model[k] = dec
    r = rest.call('v1.send_update_message', '/v1/peer/10.0.0.2/send/update', 'POST', creds=('admin', 'admin'),
                  view_args={'peer_ip': '10.0.0.2'}, body=body)
    cover('called')
    if r.status != 200 or r.obj.get('status') is not True:
        return False
    rib = p.adj_rib_out['ipv4']
    if set(rib.keys()) != set(model.keys()):
        return False
    for k in model:
        if not same(rib[k], model[k]):
            return False
    # also through the REST read endpoints
    r2 = rest.call('v1.get_peer_version', '/v1/peer/10.0.0.2/version/send', 'GET', creds=('admin', 'admin'),
                   view_args={'peer_ip': '10.0.0.2', 'action': 'send'})
    v2 = r2.obj['version']['ipv4']
    if v2 != p.send_version['ipv4']:
        return False
    # the other direction's table and counter are not touched by what is sent
    if len(p.adj_rib_in['ipv4']) != 0 or p.receive_version['ipv4'] != 0:
        return False
    return (v2 > ver) if changed else (v2 == ver)


FLOW_RULES = [{1: '192.88.3.0/24', 2: '192.89.3.0/24'}, {1: '10.0.0.0/8', 5: '=80'}, {1: '172.16.0.0/12'}]
VPN_ROUTES = [{'label': [25], 'rd': '100:100', 'prefix': '170.0.0.0/32'}, {'label': [26], 'rd': '100:100', 'prefix': '170.0.1.0/24'},
              {'label': [27], 'rd': '100:101', 'prefix': '170.0.0.0/32'}]


def ob_family_version(m1: int, m2: int) -> bool:
    """flowspec / VPNv4 receive version: +1 for a new rule, +1 for changed attributes, 0 for a repeat, +1 for removing a
    present rule, 0 for removing an absent one (second: 0 same rule again, 1 other rule, 2 withdraw it, 3 withdraw other)"""
    from yabgp.message.update import Update
    assume(0 <= m1 < 2 ** 32)
    assume(0 <= m2 < 2 ** 32)
    second = P['second']
    fam = P['family']
    items = FLOW_RULES if fam == 'flowspec' else VPN_ROUTES
    afi_safi = (1, 133) if fam == 'flowspec' else (1, 128)
    key = 'flowspec' if fam == 'flowspec' else 'mpls_vpn'
    nh = '' if fam == 'flowspec' else {'rd': '0:0', 'str': '2.2.2.2'}
    w = world(rib=False)
    p = w.fsm.protocol

    def reach(item, med):
        return Update.construct({'attr': {1: 0, 2: [], 4: med, 14: {'afi_safi': afi_safi, 'nexthop': nh, 'nlri': [item]}}}, True)

    def unreach(item):
        wd = dict(item)
        if fam != 'flowspec':
            wd['label'] = [524288]
        return Update.construct({'attr': {15: {'afi_safi': afi_safi, 'withdraw': [wd]}}}, True)
    v0 = p.receive_version[key]
    w.ev_data(reach(items[0], m1))
    v1 = p.receive_version[key]
    if v1 != v0 + 1:
        return False
    if second == 0:
        w.ev_data(reach(items[0], m2))
        exp = v1 + (0 if m2 == m1 else 1)
        if P.get('third'):
            # ... and the same announcement once more: no change, whatever happened before
            if p.receive_version[key] != exp:
                return False
            w.ev_data(reach(items[0], m2))
    elif second == 1:
        w.ev_data(reach(items[1], m2))
        exp = v1 + 1
    elif second == 2:
        w.ev_data(unreach(items[0]))
        exp = v1 + 1
    elif second == 3:
        w.ev_data(unreach(items[1]))
        exp = v1
    elif second == 6:
        # one MP_UNREACH_NLRI withdrawing an absent rule first and then the present one
        gone = []
        for it in (items[2], items[0]):
            g = dict(it)
            if fam != 'flowspec':
                g['label'] = [524288]
            gone.append(g)
        w.ev_data(Update.construct({'attr': {15: {'afi_safi': afi_safi, 'withdraw': gone}}}, True))
        exp = v1 + 1
    else:
        # one UPDATE that announces the other rule and withdraws the present one (4) / an absent one (5)
        gone = dict(items[0] if second == 4 else items[2])
        if fam != 'flowspec':
            gone['label'] = [524288]
        w.ev_data(Update.construct({'attr': {1: 0, 2: [], 4: m2,
                                             14: {'afi_safi': afi_safi, 'nexthop': nh, 'nlri': [items[1]]},
                                             15: {'afi_safi': afi_safi, 'withdraw': [gone]}}}, True))
        exp = v1 + (2 if second == 4 else 1)
    cover('second')
    return p.receive_version[key] == exp and w.state == S.ESTABLISHED and \
        [h[0] for h in w.handler.log].count('on_update_error') == 0


def ob_flowspec_send_version(x: int) -> bool:
    """sent flowspec rules: +1 when a new rule is announced, 0 for a repeat, +1 when a present rule is withdrawn, 0 when an
    absent one is - whatever component types the rule has"""
    assume(0 <= x < 256)
    rule = dict(P['rule'])
    w = world(rib=False)
    p = w.fsm.protocol

    def post(body):
        r = rest.call('v1.send_update_message', '/v1/peer/10.0.0.2/send/update', 'POST', creds=('admin', 'admin'),
                      view_args={'peer_ip': '10.0.0.2'}, body=body)
        return r.status == 200 and r.obj.get('status') is True
    ann = {'attr': {'1': 0, '2': [], '4': x, '5': 100, '14': {'afi_safi': [1, 133], 'nexthop': '', 'nlri': [rule]}}}
    wd = {'attr': {'15': {'afi_safi': [1, 133], 'withdraw': [rule]}}}
    v0 = p.send_version['flowspec']
    if not post(ann) or p.send_version['flowspec'] != v0 + 1:
        return False
    if not post(ann) or p.send_version['flowspec'] != v0 + 1:
        return False
    cover('announced')
    if not post(wd) or p.send_version['flowspec'] != v0 + 2:
        return False
    if not post(wd) or p.send_version['flowspec'] != v0 + 2:
        return False
    return True


def obligations(tier, seed):
    quick = tier == 'quick'
    out = []
    for bits in range(8):
        present = [(bits >> i) & 1 == 1 for i in range(3)]
        out.append(ob('C19/rib-in/present=%s' % ''.join('1' if x else '0' for x in present), 'ob_rib_in', {'present': present},
                      covers=['delivered'], cap=280 if quick else 800))
    for bits in (3, 5, 7):
        present = [(bits >> i) & 1 == 1 for i in range(3)]
        out.append(ob('C19/rib-in/duplicate-withdraw/present=%s' % ''.join('1' if x else '0' for x in present), 'ob_rib_in',
                      {'present': present, 'dup_withdraw': True}, covers=['delivered'], cap=280 if quick else 800))
    for (plen, oc) in ((23, (1, 1)), (17, (128, 127)), (18, (255, 255)), (21, (0, 7))):
        out.append(ob('C19/rib-in/trailing-bits/plen=%d' % plen, 'ob_rib_trailing', {'plen': plen, 'octets': list(oc)},
                      covers=['delivered'], cap=200))
    for mpk in ('unreach', 'reach'):
        for bits in (0, 3, 5):
            present = [(bits >> i) & 1 == 1 for i in range(3)]
            out.append(ob('C19/rib-in/with-mp-%s/present=%s' % (mpk, ''.join('1' if x else '0' for x in present)), 'ob_rib_in',
                          {'present': present, 'with_mp': mpk}, covers=['delivered'], cap=280 if quick else 800))
    for how in ('peer-close', 'notification'):
        out.append(ob('C19/flush/%s' % how, 'ob_rib_flush', {'how': how}, covers=['dropped']))
    out.append(ob('C19/rib-in/sequence-of-3', 'ob_rib_seq', {}, covers=['seq'], cap=280 if quick else 800))
    for mode in ('announce', 'withdraw'):
        for bits in range(4):
            present = [(bits >> i) & 1 == 1 for i in range(2)]
            out.append(ob('C19/rib-out/%s/present=%s' % (mode, ''.join('1' if x else '0' for x in present)), 'ob_rib_out',
                          {'mode': mode, 'present': present}, covers=['called'], cap=280 if quick else 800))
    for i, rule in enumerate(({'1': '192.88.3.0/24', '3': '=6'}, {'2': '192.89.3.0/24', '10': '=100'},
                              {'1': '10.0.0.0/8', '3': '=17', '11': '=46'}, {'5': '=80', '10': '>=64'})):
        out.append(ob('C19/send-version/flowspec/rule%d' % i, 'ob_flowspec_send_version', {'rule': rule}, covers=['announced'],
                      cap=200))
    for fam in ('flowspec', 'vpnv4'):
        out.append(ob('C19/version/%s/change-then-repeat' % fam, 'ob_family_version', {'family': fam, 'second': 0, 'third': True},
                      covers=['second'], cap=280 if quick else 800))
        for second in range(7):
            out.append(ob('C19/version/%s/second=%d' % (fam, second), 'ob_family_version', {'family': fam, 'second': second},
                          covers=['second'], cap=280 if quick else 800))
    return out
