"""C08 - everything the agent constructs is structurally valid BGP on the wire (or construction fails with an error)."""
import importlib
import inspect
import struct

from vf.props.common import assume, cover, ob
from vf.ref import walker

CLAIMED = True
P = {}
LEVEL_TEXT = ('Bounded symbolic verification: every constructor call made by the obligations of C06 (UPDATE + standard attributes), '
              'C07 (MP families) and C14 (OPEN / NOTIFICATION / KEEPALIVE / ROUTE-REFRESH), plus the construct-only families '
              '(SR-TE policy NLRI, tunnel-encapsulation attribute with its segment sub-TLV kinds, PMSI tunnel, IPv6 flowspec), is '
              'intercepted and its output - symbolic bytes - is walked by an independent structural walker (header length = size, '
              'attribute / TLV / capability / NLRI lengths sum exactly to their container, flag bits match the RFC category, '
              'extended-length bit consistent, prefixes occupy ceil(len/8) octets); a constructor may refuse with an exception but '
              'never return None or bytes the walker rejects.')
LEVEL_NOTE = 'Shapes are concrete, so length octets are concrete and the symbolic part is that no *value* changes a length or a flag. The walker is trusted (validated on the repository\'s captured messages).'
LEVEL_ADDED = 'Also: number of prefixes / MP routes walked must equal the number requested; label stacks are parsed to their bottom-of-stack bit; non-ASCII and 300-octet policy names; an ordinary message constructed after messages with > 255-octet attributes in the same process; quick tier = every third C06/C07/C14 shape plus all multi-element, default-route and label shapes. IPv6 flowspec prefixes with octet-aligned offsets (in the format the constructor accepts), NOTIFICATIONs with 0..6000 octets of data. PMSI tunnel attribute structure (ingress replication identifier 4 or 16 octets) with VXLAN / NVGRE overlays.'
TECHNIQUE = 'symbolic execution of the constructors (CrossHair+z3) with an independent structural walker as oracle on the symbolic output bytes'
EXPLANATION = 'C08: intercepted constructor outputs walked structurally.'
BOUNDS = 'the shape spaces of C06 / C07 / C14 (quick: every third shape) plus construct-only families with symbolic numeric fields; size boundaries 255/256 and 4096 as concrete shapes'
ASSUMPTIONS = ['vf/ref/walker.py encodes the structural rules of RFC 4271/4760/5492/5575/7432/8277 and draft tunnel-encaps as used by yabgp']
BUDGET = {'quick': 330, 'thorough': 4800}

VERDICT = {'walked': 0, 'bad': 0, 'none': 0}


def setup(params):
    """intercept the constructors (one process per obligation, so patching the classes is local)"""
    from yabgp.message.update import Update
    from yabgp.message.open import Open
    from yabgp.message.notification import Notification
    from yabgp.message.keepalive import KeepAlive
    from yabgp.message.route_refresh import RouteRefresh
    if getattr(Update, '_vf_wrapped', False):
        return
    real_update = Update.construct.__func__

    def construct(cls, msg_dict, asn4=False, addpath=False):
        raw = real_update(cls, msg_dict, asn4, addpath)
        _judge(raw, asn4, addpath)
        if raw is not None and VERDICT['bad'] == 0:
            # a message is also malformed when it carries more or fewer prefixes than it was asked to
            # (a stray octet after a /0 prefix is itself a well-formed /0 prefix)
            nw, nn = walker.update_prefix_counts(raw, addpath)
            want_w, want_n = len(msg_dict.get('withdraw') or []), len(msg_dict.get('nlri') or [])
            if nn != want_n or (nw != want_w and nw != 0):
                VERDICT['bad'] += 1
            attrs = msg_dict.get('attr') or {}
            counts = walker.update_mp_counts(raw)
            for code, key in ((14, 'nlri'), (15, 'withdraw')):
                val = attrs.get(code, attrs.get(str(code)))
                if code in counts and counts[code] is not None and isinstance(val, dict) and isinstance(val.get(key), list):
                    if counts[code] != len(val[key]):
                        VERDICT['bad'] += 1
        return raw
    Update.construct = classmethod(construct)
    Update._vf_wrapped = True
    for klass in (Open, Notification, KeepAlive, RouteRefresh):
        real = klass.construct

        def make(real_):
            def wrapped(self, *a, **kw):
                raw = real_(self, *a, **kw)
                _judge(raw, False, False)
                return raw
            return wrapped
        klass.construct = make(real)


def _judge(raw, asn4, addpath):
    if raw is None:
        VERDICT['none'] += 1
        return
    VERDICT['walked'] += 1
    if not walker.check_message(raw, asn4, addpath):
        VERDICT['bad'] += 1


def ob_wrap(a: int, b: int, c: int, d: int, e: int, f: int) -> bool:
    """run an obligation of C06 / C07 / C14 for its constructor calls only"""
    VERDICT['walked'] = VERDICT['bad'] = VERDICT['none'] = 0
    mod = importlib.import_module(P['module'])
    mod.P = P['inner']
    fn = getattr(mod, P['fn'])
    k = len(inspect.signature(fn).parameters)
    try:
        fn(*[a, b, c, d, e, f][:k])
    except Exception:
        cover('refused-or-decode-error')
    if VERDICT['walked'] > 0:
        cover('walked')
    return VERDICT['bad'] == 0 and VERDICT['none'] == 0


def _update_with(attr, asn4=False):
    from yabgp.message.update import Update
    VERDICT['walked'] = VERDICT['bad'] = VERDICT['none'] = 0
    try:
        Update.construct({'attr': attr}, asn4)
    except Exception:
        cover('refused')
        return True
    cover('walked')
    return VERDICT['bad'] == 0 and VERDICT['none'] == 0 and VERDICT['walked'] == 1


def ob_srte(dist: int, color: int, x: int, y: int) -> bool:
    assume(0 <= dist < 2 ** 32 and 0 <= color < 2 ** 32 and 0 <= x < 256 and 0 <= y < 256)
    nlri = {'distinguisher': dist, 'color': color, 'endpoint': '%s.%s.%s.%s' % (192, x, y, 7)}
    if P['dir'] == 'reach':
        return _update_with({14: {'afi_safi': (1, 73), 'nexthop': P.get('nexthop', '192.168.5.5'), 'nlri': nlri}})
    return _update_with({15: {'afi_safi': (1, 73), 'withdraw': nlri}})


def ob_tunnel(label: int, pref: int, weight: int, tc: int, ttl: int, bsid: int) -> bool:
    assume(0 <= label < 2 ** 20 and 0 <= pref < 2 ** 32 and 0 <= weight < 2 ** 32 and 0 <= tc < 8 and 0 <= ttl < 256)
    assume(0 <= bsid < 2 ** 20)
    kind = P['kind']
    sid = {'label': label, 'TC': tc, 'S': P.get('S', 0), 'TTL': ttl}
    segs = {
        'mpls': {'1': {'label': label}},
        'ipv4': {'3': {'node': '10.1.1.1'}},
        'ipv4+sid': {'3': {'node': '10.1.1.1', 'SID': sid}},
        'ipv4-index': {'5': {'interface': pref, 'node': '10.1.1.1'}},
        'ipv4-index+sid': {'5': {'interface': pref, 'node': '10.1.1.1', 'SID': sid}},
        'ipv4-addr': {'6': {'local': '10.1.1.1', 'remote': '10.1.1.2'}},
        'ipv4-addr+sid': {'6': {'local': '10.1.1.1', 'remote': '10.1.1.2', 'SID': sid}},
    }
    if kind in segs:
        value = {'0': P.get('enc', 'old'), '128': [{'9': weight, '1': [segs[kind], {'1': {'label': 2000}}]}]}
    elif kind == 'two-lists':
        value = {'0': 'new', '12': pref, '13': bsid,
                 '128': [{'9': weight, '1': [segs['mpls']]}, {'1': [segs['ipv4+sid'], segs['mpls']]}]}
    elif kind == 'old-pref-bsid':
        value = {'0': 'old', '6': pref, '7': bsid}
    elif kind == 'new-pref-bsid':
        value = {'0': 'new', '12': pref, '13': bsid}
    elif kind == 'new-all':
        value = {'0': 'new', '12': pref, '13': bsid, '14': tc % 4, '15': ttl, '129': P.get('name') or 'policy-%d' % P.get('n', 1),
                 '6': {'asn': weight, 'afi': P.get('afi', 'ipv4'),
                       'address': '1.1.1.1' if P.get('afi', 'ipv4') == 'ipv4' else '2001:db8::1'}}
    elif kind == 'none':
        value = {'0': P.get('enc', 'new')}
    else:
        raise AssertionError(kind)
    attr = {23: value}
    if P.get('with_srte', True):
        attr[14] = {'afi_safi': (1, 73), 'nexthop': '192.168.5.5',
                    'nlri': {'distinguisher': 0, 'color': 10, 'endpoint': '192.168.5.7'}}
    return _update_with(attr)


def ob_pmsi(label: int, x: int, y: int) -> bool:
    assume(0 <= label < 2 ** 20 and 0 <= x < 256 and 0 <= y < 256)
    val = {'mpls_label': [label], 'tunnel_id': '%s.%s.%s.%s' % (10, x, y, 1), 'tunnel_type': P.get('tt', 6),
           'leaf_info_required': P.get('leaf', 0)}
    attr = {22: val}
    if P.get('evpn'):
        attr[16] = [[0x030c, P.get('encap', 8)]]
        attr[14] = {'afi_safi': (25, 70), 'nexthop': '10.75.44.254',
                    'nlri': [{'type': 3, 'value': {'rd': '172.16.0.1:5904', 'eth_tag_id': 100, 'ip': '192.168.0.1'}}]}
    return _update_with(attr)


def ob_flowspec6(x: int) -> bool:
    rule = dict((int(k), v) for k, v in P['rule'].items())
    if P['dir'] == 'reach':
        return _update_with({14: {'afi_safi': (2, 133), 'nexthop': '', 'nlri': [rule]}})
    return _update_with({15: {'afi_safi': (2, 133), 'withdraw': [rule]}})


def ob_sizes(x: int) -> bool:
    """size boundaries: attribute value 255/256 octets, message 4096"""
    kind = P['kind']
    if kind == 'communities':
        attr = {8: ['65000:%d' % i for i in range(P['n'])]}
    elif kind == 'extcomm':
        attr = {16: [[0x0002, '65000:%d' % i] for i in range(P['n'])]}
    elif kind == 'largecomm':
        attr = {32: ['1:2:%d' % i for i in range(P['n'])]}
    elif kind == 'cluster':
        attr = {10: ['10.0.%d.%d' % (i // 256, i % 256) for i in range(P['n'])]}
    elif kind == 'nlri':
        from yabgp.message.update import Update
        VERDICT['walked'] = VERDICT['bad'] = VERDICT['none'] = 0
        msg = {'attr': {1: 0, 2: [], 3: '10.0.0.1'},
               'nlri': ['10.%d.%d.0/24' % (i // 256, i % 256) for i in range(P['n'])]}
        try:
            Update.construct(msg, False)
        except Exception:
            cover('refused')
            return True
        cover('walked')
        return VERDICT['bad'] == 0 and VERDICT['none'] == 0
    else:
        raise AssertionError(kind)
    return _update_with(attr)


def ob_notif_sizes(code: int, sub: int, fill: int) -> bool:
    """NOTIFICATION carrying n octets of error data (what the agent echoes back can be a whole oversized attribute):
    whatever the size, the header length is the number of octets written"""
    from yabgp.message.notification import Notification
    assume(0 <= code < 256 and 0 <= sub < 256 and 0 <= fill < 256)
    VERDICT['walked'] = VERDICT['bad'] = VERDICT['none'] = 0
    n = P['n']
    data = bytes([fill]) * n
    try:
        Notification().construct(code, sub, data)
    except Exception:
        cover('refused')
        return True
    cover('walked')
    return VERDICT['bad'] == 0 and VERDICT['none'] == 0 and VERDICT['walked'] == 1


def ob_after_big(asn: int, med: int, x: int) -> bool:
    """one process, two messages: first messages whose attributes need the extended-length form (AS_PATH, communities,
    cluster list, MP_REACH over 255 octets), then an ordinary one with symbolic fields - which must be as well formed
    as if it had been the first (nothing of the big message may stick to the classes)"""
    from yabgp.message.update import Update
    assume(1 <= asn < 65536 and 0 <= med < 2 ** 32 and 0 <= x < 256)
    asn4 = P.get('asn4', False)
    VERDICT['walked'] = VERDICT['bad'] = VERDICT['none'] = 0
    bigs = [{2: [[2, [65000 + (i % 500) for i in range(200)]]]},
            {2: [], 8: ['65000:%d' % i for i in range(70)]},
            {2: [], 10: ['10.0.%d.%d' % (i // 256, i % 256) for i in range(70)]},
            {2: [], 16: [[0x0002, '65000:%d' % i] for i in range(40)]},
            {2: [], 32: ['1:2:%d' % i for i in range(30)]},
            {2: [], 14: {'afi_safi': (2, 1), 'nexthop': '2001:db8::1', 'nlri': ['2001:db8:%x::/48' % i for i in range(40)]}}]
    built = 0
    for extra in bigs:
        attr = {1: 0, 3: '10.0.0.1'}
        attr.update(extra)
        try:
            Update.construct({'attr': attr, 'nlri': ['10.0.0.0/8']}, asn4)
            built += 1
        except Exception:
            pass                  # an attribute that cannot grow beyond 255 octets is refused loudly: fine
    if built < 2:
        return False
    if VERDICT['bad'] or VERDICT['none']:
        return False
    cover('big')
    small = {1: 0, 2: [[2, [asn, 65001]]], 3: '10.0.%s.1' % x, 4: med, 8: ['65000:1'], 10: ['10.0.0.9'],
             16: [[0x0002, '65000:7']], 32: ['1:2:3']}
    Update.construct({'attr': small, 'nlri': ['10.1.0.0/16']}, asn4)
    Update.construct({'attr': {1: 0, 2: [], 14: {'afi_safi': (2, 1), 'nexthop': '2001:db8::1', 'nlri': ['2001:db8::/32']}}}, asn4)
    return VERDICT['bad'] == 0 and VERDICT['none'] == 0 and VERDICT['walked'] == built + 2


def obligations(tier, seed):
    quick = tier == 'quick'
    from vf import loader
    loader.install(symbolic=False)
    out = []
    step = 3 if quick else 1
    for modname in ('C06', 'C07', 'C14'):
        m = importlib.import_module('vf.props.' + modname)
        inner = m.obligations(tier, seed)
        for i, o in enumerate(inner):
            if o['fn'] in ('ob_ipmodel',):
                continue
            # quick tier: every third obligation, plus every obligation with more than one element / label / route
            # (multi-element shapes are where length arithmetic goes wrong) and every /0 shape
            special = any(t in o['id'] for t in ('depth=2', '/list', 'two', 'second', 'plen=0', 'label=', '+', 'n=2', 'long-rule', 'then-', 'rule-octets', 'repeated-term'))
            if i % step != (seed % step) and not special:
                continue
            out.append(ob('C08/' + o['id'], 'ob_wrap', {'module': 'vf.props.' + modname, 'fn': o['fn'], 'inner': o.get('params', {})},
                          covers=['walked'] if not (o['id'].startswith('C07/lu6/unreach') or 'indep' in o['id']) else [],
                          cap=o.get('cap', 120)))
    for d in ('reach', 'unreach'):
        out.append(ob('C08/srte/%s' % d, 'ob_srte', {'dir': d}, covers=['walked']))
    out.append(ob('C08/srte/reach/no-nexthop', 'ob_srte', {'dir': 'reach', 'nexthop': ''}))
    for kind in ('mpls', 'ipv4', 'ipv4+sid', 'ipv4-index', 'ipv4-index+sid', 'ipv4-addr', 'ipv4-addr+sid', 'two-lists',
                 'old-pref-bsid', 'new-pref-bsid', 'new-all', 'none'):
        for enc in ('old', 'new'):
            out.append(ob('C08/tunnel-encaps/%s/enc=%s' % (kind, enc), 'ob_tunnel', {'kind': kind, 'enc': enc}, covers=['walked']))
    out.append(ob('C08/tunnel-encaps/new-all/ipv6-endpoint', 'ob_tunnel', {'kind': 'new-all', 'afi': 'ipv6'}, covers=['walked']))
    out.append(ob('C08/tunnel-encaps/new-all/long-name', 'ob_tunnel', {'kind': 'new-all', 'n': 10 ** 30}, covers=['walked']))
    for nm in ('caf\u00e9-core', '\u4e2d\u6587', 'x' * 300):
        out.append(ob('C08/tunnel-encaps/new-all/name=%s' % nm.encode('unicode_escape').decode()[:16], 'ob_tunnel',
                      {'kind': 'new-all', 'name': nm}))
    out.append(ob('C08/tunnel-encaps/mpls/alone', 'ob_tunnel', {'kind': 'mpls', 'with_srte': False}, covers=['walked']))
    for tt in (6, 0, 1, 3):
        for evpn in (False, True):
            out.append(ob('C08/pmsi/tt=%d/evpn=%s' % (tt, evpn), 'ob_pmsi', {'tt': tt, 'evpn': evpn},
                          covers=['walked'] if tt == 6 else []))
    for encap in (8, 9, 1, 10):
        # EVPN overlay: VXLAN, NVGRE, and two encapsulations for which the label stays an MPLS label
        out.append(ob('C08/pmsi/tt=6/evpn=True/encap=%d' % encap, 'ob_pmsi', {'tt': 6, 'evpn': True, 'encap': encap},
                      covers=['walked'] if encap in (8, 9) else []))
    def pfx(p, off):
        return {'prefix': p, 'offset': off}
    rules = [{'1': pfx('2001:db8::/32', 0)}, {'1': pfx('2001:db8:1:2::/64', 32)},
             {'1': pfx('2001:db8::1/128', 0), '2': pfx('2001:db8:1::/48', 0)}, {'3': '=6|=17'}, {'1': pfx('::/0', 0)},
             {'5': '=80|>=8080'}, {'1': pfx('2001:db8:8000::/33', 0), '3': '=6'}, {'1': pfx('2001:db8:1:2:3::/80', 64)},
             {'1': pfx('2001:db8:1:2::/64', 8), '2': pfx('2001:db8:1:2:3:4::/96', 48)}, {'1': pfx('2001:db8:1:2::/64', 64)}]
    for i, r in enumerate(rules):
        for d in ('reach', 'unreach'):
            out.append(ob('C08/flowspec6/%s/rule%d' % (d, i), 'ob_flowspec6', {'dir': d, 'rule': r},
                          covers=['walked'] if d == 'reach' else []))
    for n in (0, 1, 4074, 4075, 4076, 4100, 6000):
        out.append(ob('C08/sizes/notification-data/n=%d' % n, 'ob_notif_sizes', {'n': n}, cap=200))
    for asn4 in (False, True):
        out.append(ob('C08/after-big-messages/asn4=%s' % asn4, 'ob_after_big', {'asn4': asn4}, covers=['big'], cap=200))
    for kind, ns in (('communities', (63, 64)), ('extcomm', (31, 32)), ('largecomm', (21, 22)), ('cluster', (63, 64)),
                     ('nlri', (1000, 1100))):
        for n in ns:
            out.append(ob('C08/sizes/%s/n=%d' % (kind, n), 'ob_sizes', {'kind': kind, 'n': n}, cap=200))
    return out
