"""C07 - multiprotocol NLRI round trip for every family that is both encoded and decoded."""
from vf.props.common import assume, cover, ob, same, ip4_octets

CLAIMED = True
P = {}
LEVEL_TEXT = ('Bounded symbolic verification: per family (IPv6 unicast, IPv4/IPv6 labeled unicast, VPNv4/VPNv6, EVPN route types 1-4, '
              'IPv4 flowspec) the real MpReachNLRI / MpUnReachNLRI construct -> Update.parse round trip is decided by z3 for all '
              'values of the symbolic fields (labels 0..2^20-1, RD administrator / assigned numbers for RD types 0/1/2, IPv4 octets, '
              'Ethernet tag, ESI numeric fields, path attributes around them) on every enumerated shape (every prefix length, label '
              'stack depth, route type, ESI type, MAC/IP presence, flowspec component and operator).')
LEVEL_NOTE = ('IPv6 address bits, MAC addresses, the 9-octet ESI type-0 value and flowspec operand values cross text<->hex idioms that '
              'the engine realises: they are concretised from boundary pools (outside the solver quantifier). SR-TE, IPv6 flowspec, '
              'tunnel encapsulation have no decoder (C08 only).')
LEVEL_ADDED = 'Also: flowspec operands of every width followed by a further alternative and by a later component of the same rule. Operand values between the legal widths (65536 ...), flowspec rules of 240 octets and more, IPv6 next hops and EVPN addresses whose numeric value fits in 32 bits. A flowspec rule of 240+ octets followed by another rule. Flowspec rules of exactly 239 / 240 / 242 octets; lists of alternatives that repeat a term.'
TECHNIQUE = 'symbolic execution of MpReachNLRI/MpUnReachNLRI construct + Update.parse per family shape (CrossHair+z3), round-trip oracle, replayed counterexamples'
EXPLANATION = 'C07: per-family MP_REACH/MP_UNREACH round trips.'
BOUNDS = 'IPv4 prefix lengths 0..32, IPv6 0..128 (boundary set in quick); label stack depth 1..2; 1..2 routes; RD types 0/1/2; ESI types 0..5; flowspec components 1..11 x 5 operators x 1/2/4-byte operands'
ASSUMPTIONS = ['IPv6 / MAC / ESI type-0 / flowspec operand values concretised from pools', 'netaddr model for symbolic IPv4 text']
BUDGET = {'quick': 330, 'thorough': 3600}

V6_POOL = ['2001:db8::', '2001:db8:1:2:3:4:5:6', 'ffff:ffff:ffff:ffff:ffff:ffff:ffff:ffff', 'fe80::1', '::', '::1',
           '2001:db8:0:1::', '1::']
MAC_POOL = ['00-11-22-33-44-55', 'FF-FF-FF-FF-FF-FF', '00-00-00-00-00-00', '0A-0B-0C-0D-0E-0F']


def mp_roundtrip(attr14=None, attr15=None, extra=None, asn4=False):
    from yabgp.message.update import Update
    attr = {}
    if attr14 is not None:
        attr[14] = attr14
    if attr15 is not None:
        attr[15] = attr15
    if extra:
        attr.update(extra)
    raw = Update.construct({'attr': attr}, asn4)
    if raw is None:
        return False
    out = Update.parse(None, raw[19:], asn4)
    if out['sub_error'] is not None:
        return False
    cover('rt')
    return same(out['attr'], attr) and out['nlri'] == [] and out['withdraw'] == []


def v6_prefix(addr, plen):
    """canonical text of addr/plen with host bits cleared (concrete)"""
    import ipaddress
    net = ipaddress.ip_network('%s/%d' % (addr, plen), strict=False)
    import netaddr
    return '%s/%d' % (netaddr.IPAddress(int(net.network_address), version=6), plen)


def v4_prefix(o, plen):
    v = ((o[0] * 256 + o[1]) * 256 + o[2]) * 256 + o[3]
    k = 2 ** (32 - plen)
    v = (v // k) * k
    return '%s.%s.%s.%s/%s' % (v // 16777216, (v // 65536) % 256, (v // 256) % 256, v % 256, plen)


def rd_text(kind, a, b, o=None):
    if kind == 0:
        assume(0 <= a < 65536 and 0 <= b < 2 ** 32)
        return '%s:%s' % (a, b)
    if kind == 2:
        assume(65536 <= a < 2 ** 32 and 0 <= b < 65536)
        return '%s:%s' % (a, b)
    if kind == 1:
        assume(0 <= a < 256 and 0 <= b < 65536)
        return '%s:%s' % (ip4_octets(o[0], a, o[2], o[3]), b)
    raise AssertionError(kind)


def ob_ipv6_unicast(a: int) -> bool:
    """IPv6 unicast MP_REACH / MP_UNREACH; addresses from the pool (P), a = MED travelling with it"""
    assume(0 <= a < 2 ** 32)
    pfx = [v6_prefix(ad, pl) for (ad, pl) in P['prefixes']]
    if P['dir'] == 'reach':
        v = {'afi_safi': (2, 1), 'nexthop': P['nexthop'], 'nlri': pfx}
        if P.get('linklocal'):
            v['linklocal_nexthop'] = P['linklocal']
        return mp_roundtrip(attr14=v, extra={4: a})
    return mp_roundtrip(attr15={'afi_safi': (2, 1), 'withdraw': pfx})


def _labels(l1, l2):
    depth = P.get('depth', 1)
    assume(0 <= l1 < 2 ** 20)
    if P.get('l1') is not None:
        assume(l1 == P['l1'])
    if depth == 1:
        return [l1]
    assume(0 <= l2 < 2 ** 20)
    return [l2, l1]


def ob_labeled(l1: int, l2: int, x: int, y: int) -> bool:
    """IPv4 / IPv6 labeled unicast; label stack symbolic, IPv4 octets x,y symbolic"""
    afi = P['afi']
    labels = _labels(l1, l2)
    plen = P['plen']
    if afi == 1:
        assume(0 <= x < 256 and 0 <= y < 256)
        o = list(P.get('octets', [10, 0, 0, 0]))
        o[P.get('xpos', 0)] = x
        o[P.get('ypos', 1)] = y
        pfx = v4_prefix(o, plen)
        nh = P.get('nexthop', '10.0.0.1')
    else:
        pfx = v6_prefix(P['addr'], plen)
        nh = P.get('nexthop', '2001:db8::1')
    routes = [{'prefix': pfx, 'label': labels}]
    if P.get('second'):
        routes.append({'prefix': P['second'], 'label': [100]})
    if P['dir'] == 'reach':
        return mp_roundtrip(attr14={'afi_safi': (afi, 4), 'nexthop': nh, 'nlri': routes})
    wd = [{'prefix': r['prefix'], 'label': [524288]} for r in routes]
    return mp_roundtrip(attr15={'afi_safi': (afi, 4), 'withdraw': wd})


def ob_vpn(l1: int, l2: int, ra: int, rb: int, x: int) -> bool:
    """VPNv4 / VPNv6: labels, RD fields symbolic"""
    afi = P['afi']
    labels = _labels(l1, l2)
    rd = rd_text(P['rd'], ra, rb, P.get('rd_octets', [172, 0, 0, 1]))
    plen = P['plen']
    if afi == 1:
        assume(0 <= x < 256)
        o = list(P.get('octets', [10, 0, 0, 0]))
        o[P.get('xpos', 0)] = x
        pfx = v4_prefix(o, plen)
        nh = {'rd': '0:0', 'str': '10.0.0.1'}
    else:
        pfx = v6_prefix(P['addr'], plen)
        nh = {'rd': '0:0', 'str': P.get('nexthop', '::ffff:172.16.4.12')}
    routes = [{'label': labels, 'rd': rd, 'prefix': pfx}]
    if P.get('second'):
        routes.append({'label': [55], 'rd': '100:12', 'prefix': P['second']})
    if P['dir'] == 'reach':
        return mp_roundtrip(attr14={'afi_safi': (afi, 128), 'nexthop': nh, 'nlri': routes})
    wd = [{'label': [524288], 'rd': r['rd'], 'prefix': r['prefix']} for r in routes]
    return mp_roundtrip(attr15={'afi_safi': (afi, 128), 'withdraw': wd})


def _esi(t, a, b):
    if t == 0:
        return {'type': 0, 'value': P.get('esi0', 0)}
    if t in (1, 2):
        assume(0 <= a < 65536)
        key = ('ce_mac_addr', 'ce_port_key') if t == 1 else ('rb_mac_addr', 'rb_priority')
        return {'type': t, 'value': {key[0]: P.get('mac', MAC_POOL[0]), key[1]: a}}
    if t == 3:
        return {'type': 3, 'value': {'sys_mac_addr': P.get('mac', MAC_POOL[0]), 'ld_value': P.get('ld', 1)}}
    if t in (4, 5):
        assume(0 <= a < 2 ** 32 and 0 <= b < 2 ** 32)
        key = 'router_id' if t == 4 else 'as_num'
        return {'type': t, 'value': {key: a, 'ld_value': b}}
    raise AssertionError(t)


def ob_evpn(tag: int, lab: int, ra: int, rb: int, ea: int, eb: int) -> bool:
    rt = P['rt']
    assume(0 <= tag < 2 ** 32 and 0 <= lab < 2 ** 20)
    if P.get('lab') is not None:
        assume(lab == P['lab'])
    rd = rd_text(P.get('rd', 1), ra, rb, [1, 1, 1, 1])
    if rt == 1:
        val = {'rd': rd, 'esi': _esi(P['esi'], ea, eb), 'eth_tag_id': tag, 'label': [lab]}
    elif rt == 2:
        val = {'rd': rd, 'esi': _esi(P['esi'], ea, eb), 'eth_tag_id': tag, 'mac': P.get('mac2', MAC_POOL[0]), 'label': [lab]}
        if P.get('ip'):
            val['ip'] = P['ip']
    elif rt == 3:
        val = {'rd': rd, 'eth_tag_id': tag}
        if P.get('ip'):
            val['ip'] = P['ip']
    elif rt == 4:
        val = {'rd': rd, 'esi': _esi(P['esi'], ea, eb)}
        if P.get('ip'):
            val['ip'] = P['ip']
    else:
        raise AssertionError(rt)
    routes = [{'type': rt, 'value': val}]
    if P.get('second'):
        routes.append({'type': 3, 'value': {'rd': '172.16.0.1:5904', 'eth_tag_id': 100, 'ip': '192.168.0.1'}})
    if P['dir'] == 'reach':
        return mp_roundtrip(attr14={'afi_safi': (25, 70), 'nexthop': P.get('nexthop', '10.75.44.254'), 'nlri': routes})
    return mp_roundtrip(attr15={'afi_safi': (25, 70), 'withdraw': routes})


def ob_flowspec(x: int, y: int) -> bool:
    """IPv4 flowspec: prefix components with symbolic octets; numeric components with pooled operands"""
    comp = P['comp']
    rule = {}
    if comp in (1, 2):
        assume(0 <= x < 256 and 0 <= y < 256)
        o = list(P.get('octets', [192, 0, 2, 0]))
        o[0], o[1] = x, y
        rule[comp] = v4_prefix(o, P['plen'])
    else:
        rule[comp] = P['expr']
    if P.get('with_prefix'):
        rule[1] = '192.88.3.0/24'
    for k, v in (P.get('also') or {}).items():
        rule[int(k)] = v
    rules = [rule]
    if P.get('second'):
        rules.append({1: '192.88.4.0/24', 2: '192.89.4.0/24'})
    if P['dir'] == 'reach':
        return mp_roundtrip(attr14={'afi_safi': (1, 133), 'nexthop': P.get('nexthop', ''), 'nlri': rules})
    return mp_roundtrip(attr15={'afi_safi': (1, 133), 'withdraw': rules})


def obligations(tier, seed):
    quick = tier == 'quick'
    out = []
    v6lens = [0, 1, 7, 8, 9, 32, 60, 63, 64, 65, 127, 128] if quick else list(range(0, 129))
    v4lens = [0, 1, 8, 9, 16, 17, 24, 25, 32] if quick else list(range(0, 33))
    dirs = ('reach', 'unreach')
    # IPv6 unicast
    for pl in v6lens:
        for d in dirs:
            for ad in (V6_POOL[1:3] if quick else V6_POOL):
                out.append(ob('C07/ipv6/%s/plen=%d/addr=%s' % (d, pl, ad), 'ob_ipv6_unicast',
                              {'dir': d, 'prefixes': [(ad, pl)], 'nexthop': '2001:db8::1'}))
    out.append(ob('C07/ipv6/reach/list3+linklocal', 'ob_ipv6_unicast',
                  {'dir': 'reach', 'prefixes': [('2001:db8:2:2::', 64), ('2001:db8::', 32), ('2001:db8:2::1', 128)],
                   'nexthop': '2001:db8::2', 'linklocal': 'fe80::c002:bff:fe7e:0'}))
    for nh in ('::', '::1', '::255.255.255.255', '::1:0:0'):
        out.append(ob('C07/ipv6/reach/nexthop=%s' % nh, 'ob_ipv6_unicast',
                      {'dir': 'reach', 'prefixes': [('2001:db8::', 32)], 'nexthop': nh}))
        out.append(ob('C07/ipv6/reach/nexthop=%s+linklocal' % nh, 'ob_ipv6_unicast',
                      {'dir': 'reach', 'prefixes': [('2001:db8::', 32)], 'nexthop': nh, 'linklocal': 'fe80::1'}))
    out.append(ob('C07/ipv6/unreach/list2', 'ob_ipv6_unicast',
                  {'dir': 'unreach', 'prefixes': [('2001:db8:2:2::', 64), ('2001:db8::', 48)], 'nexthop': '2001:db8::2'}))
    # labeled unicast
    for d in dirs:
        for pl in v4lens:
            for depth in (1, 2):
                if quick and depth == 2 and pl not in (0, 24):
                    continue
                out.append(ob('C07/lu4/%s/plen=%d/depth=%d' % (d, pl, depth), 'ob_labeled',
                              {'afi': 1, 'dir': d, 'plen': pl, 'depth': depth}))
        for pl in v6lens:
            for ad in (V6_POOL[1:2] if quick else V6_POOL[:4]):
                out.append(ob('C07/lu6/%s/plen=%d/addr=%s' % (d, pl, ad), 'ob_labeled',
                              {'afi': 2, 'dir': d, 'plen': pl, 'addr': ad, 'depth': 1}))
        for lab in (0, 1, 3, 15, 16, 2 ** 20 - 1):
            out.append(ob('C07/lu4/%s/label=%d' % (d, lab), 'ob_labeled', {'afi': 1, 'dir': d, 'plen': 24, 'l1': lab}))
    out.append(ob('C07/lu4/reach/two-routes', 'ob_labeled', {'afi': 1, 'dir': 'reach', 'plen': 17, 'second': '10.9.0.0/16'}))
    # VPNv4 / VPNv6
    for d in dirs:
        for rd in (0, 1, 2):
            for pl in v4lens:
                if quick and rd != 0 and pl not in (0, 24, 32):
                    continue
                out.append(ob('C07/vpnv4/%s/rd=%d/plen=%d' % (d, rd, pl), 'ob_vpn', {'afi': 1, 'dir': d, 'rd': rd, 'plen': pl}))
            for pl in v6lens:
                if quick and rd != 0 and pl not in (0, 64, 128):
                    continue
                for ad in (V6_POOL[1:2] if quick else V6_POOL[:4]):
                    out.append(ob('C07/vpnv6/%s/rd=%d/plen=%d/addr=%s' % (d, rd, pl, ad), 'ob_vpn',
                                  {'afi': 2, 'dir': d, 'rd': rd, 'plen': pl, 'addr': ad}))
        out.append(ob('C07/vpnv4/%s/depth=2' % d, 'ob_vpn', {'afi': 1, 'dir': d, 'rd': 0, 'plen': 24, 'depth': 2}))
        out.append(ob('C07/vpnv4/%s/two-routes' % d, 'ob_vpn', {'afi': 1, 'dir': d, 'rd': 0, 'plen': 24, 'second': '170.0.0.0/32'}))
        for lab in (0, 1, 3, 15, 16, 2 ** 20 - 1):
            out.append(ob('C07/vpnv4/%s/label=%d' % (d, lab), 'ob_vpn', {'afi': 1, 'dir': d, 'rd': 0, 'plen': 24, 'l1': lab}))
    # EVPN
    for d in dirs:
        for rt in (1, 2, 3, 4):
            esis = (0, 1, 2, 3, 4, 5) if rt != 3 else (None,)
            for esi in esis:
                ips = [None] if rt == 1 else [None, '11.11.11.1', '2001:db8::1', '::1', '::255.255.255.255']
                for ip in ips:
                    if quick and ip in ('2001:db8::1', '::1', '::255.255.255.255') and esi not in (0, None):
                        continue
                    prm = {'rt': rt, 'dir': d, 'esi': esi, 'ip': ip}
                    out.append(ob('C07/evpn/%s/rt=%d/esi=%s/ip=%s' % (d, rt, esi, ip), 'ob_evpn', prm))
        for lab in (0, 1, 15, 16, 2 ** 20 - 1):
            out.append(ob('C07/evpn/%s/rt=2/label=%d' % (d, lab), 'ob_evpn', {'rt': 2, 'dir': d, 'esi': 0, 'lab': lab}))
        for esi0 in (1, 255, 256, 2 ** 64, 2 ** 72 - 1):
            out.append(ob('C07/evpn/%s/rt=1/esi0=%d' % (d, esi0), 'ob_evpn', {'rt': 1, 'dir': d, 'esi': 0, 'esi0': esi0}))
        for ld in (0, 255, 256, 65535, 2 ** 24 - 1):
            out.append(ob('C07/evpn/%s/rt=4/esi3-ld=%d' % (d, ld), 'ob_evpn', {'rt': 4, 'dir': d, 'esi': 3, 'ld': ld}))
        for rd in (0, 2):
            out.append(ob('C07/evpn/%s/rt=3/rd=%d' % (d, rd), 'ob_evpn', {'rt': 3, 'dir': d, 'esi': None, 'rd': rd, 'ip': '192.168.0.1'}))
        out.append(ob('C07/evpn/%s/two-routes' % d, 'ob_evpn', {'rt': 1, 'dir': d, 'esi': 0, 'second': True}))
    # flowspec
    ops = ['=', '>', '<', '>=', '<=']
    vals = [0, 255, 256, 65535, 65536, 2 ** 24 - 1, 2 ** 24, 2 ** 32 - 1] if not quick else [0, 255, 256, 65535, 65536, 2 ** 32 - 1]
    for d in dirs:
        for comp in (1, 2):
            for pl in v4lens:
                out.append(ob('C07/flowspec/%s/comp=%d/plen=%d' % (d, comp, pl), 'ob_flowspec', {'dir': d, 'comp': comp, 'plen': pl}))
        for comp in (3, 4, 5, 6, 7, 8, 10, 11):    # 9 (TCP flags) and 12 (fragment) take bitmask operators: the encoder
            # does not support them and refuses with an error (C08), so there is nothing to round-trip
            for op in ops:
                for v in vals:
                    if quick and (comp + len(op) + vals.index(v)) % 3 != 0:
                        continue
                    out.append(ob('C07/flowspec/%s/comp=%d/%s%d' % (d, comp, op, v), 'ob_flowspec',
                                  {'dir': d, 'comp': comp, 'expr': '%s%d' % (op, v)}))
            out.append(ob('C07/flowspec/%s/comp=%d/list' % (d, comp), 'ob_flowspec',
                          {'dir': d, 'comp': comp, 'expr': '=80|=8080|>=1024', 'with_prefix': True}))
        # operands of every width followed by more of the same rule: a further alternative, a later component
        nxt = {3: 4, 4: 5, 5: 6, 6: 7, 7: 8, 8: 10, 10: 11, 11: None}
        for comp in (3, 4, 5, 6, 7, 8, 10, 11):
            for v in (255, 65535, 2 ** 24, 2 ** 32 - 1):
                if quick and (comp + [255, 65535, 2 ** 24, 2 ** 32 - 1].index(v)) % 2:
                    continue
                out.append(ob('C07/flowspec/%s/comp=%d/=%d-then-alternative' % (d, comp, v), 'ob_flowspec',
                              {'dir': d, 'comp': comp, 'expr': '=%d|=1' % v}))
                if nxt[comp]:
                    out.append(ob('C07/flowspec/%s/comp=%d/>=%d-then-component-%d' % (d, comp, v, nxt[comp]), 'ob_flowspec',
                                  {'dir': d, 'comp': comp, 'expr': '>=%d' % v, 'also': {str(nxt[comp]): '=80'}}))
        # a rule of 240 octets or more (two-octet NLRI length, RFC 5575 section 4): 80 / 100 three-octet alternatives
        for n in (79, 80, 100):
            out.append(ob('C07/flowspec/%s/comp=5/long-rule/n=%d' % (d, n), 'ob_flowspec',
                          {'dir': d, 'comp': 5, 'expr': '|'.join('=%d' % (1000 + i) for i in range(n))}))
        # a rule of exactly 239 / 240 / 241 / 242 octets (the switch to the two-octet length is at 240)
        for extra, total in (('=80', 240), ('=80|=81', 242)):
            out.append(ob('C07/flowspec/%s/comp=5/rule-octets=%d' % (d, total), 'ob_flowspec',
                          {'dir': d, 'comp': 5, 'expr': '|'.join('=%d' % (1000 + i) for i in range(79)) + '|' + extra}))
        out.append(ob('C07/flowspec/%s/comp=5/rule-octets=239' % d, 'ob_flowspec',
                      {'dir': d, 'comp': 5, 'expr': '|'.join('=%d' % (1000 + i) for i in range(78)) + '|=80|=81'}))
        # the same term more than once in a list of alternatives
        for expr in ('=80|=443|=80', '>1024|<10|>1024', '=80|=80', '=80|=443|=80|=443'):
            out.append(ob('C07/flowspec/%s/comp=5/repeated-term/%s' % (d, expr), 'ob_flowspec',
                          {'dir': d, 'comp': 5, 'expr': expr, 'also': {'6': '=1'}}))
        out.append(ob('C07/flowspec/%s/comp=5/long-rule/n=80/then-second-rule' % d, 'ob_flowspec',
                      {'dir': d, 'comp': 5, 'expr': '|'.join('=%d' % (1000 + i) for i in range(80)), 'second': True}))
        out.append(ob('C07/flowspec/%s/two-rules' % d, 'ob_flowspec', {'dir': d, 'comp': 1, 'plen': 24, 'second': True}))
    out.append(ob('C07/flowspec/reach/nexthop', 'ob_flowspec', {'dir': 'reach', 'comp': 1, 'plen': 24, 'nexthop': '10.0.0.9'}))
    return out
