from vf.engine.driver import assume, cover
from yabgp.message.update import Update
P = {}

def ob_med(v: int) -> bool:
    assume(0 <= v < 2**32)
    raw = Update.construct({'attr': {4: v}})
    out = Update.parse(None, raw[19:])
    return out['attr'] == {4: v} and out['sub_error'] is None

def ob_prefix(a: int, b: int, c: int) -> bool:
    assume(0 <= a < 256 and 0 <= b < 256 and 0 <= c < 256)
    plen = P['plen']
    data = bytes([plen, a, b, c])
    out = Update.parse_prefix_list(data)
    k = 2 ** (24 - plen)
    v = ((a * 65536 + b * 256 + c) // k) * k
    exp = '%d.%d.%d.0/%d' % (v // 65536, (v // 256) % 256, v % 256, plen)
    return out == [exp]

def ob_nlri_rt(ip: int) -> bool:
    assume(0 <= ip < 2**32)
    plen = P['plen']
    shift = 32 - plen
    ip = (ip >> shift) << shift
    pfx = '%s.%s.%s.%s/%s' % (ip >> 24, (ip >> 16) & 255, (ip >> 8) & 255, ip & 255, plen)
    raw = Update.construct({'attr': {4: 5}, 'nlri': [pfx]})
    out = Update.parse(None, raw[19:])
    return out['nlri'] == [pfx]

from yabgp.message.attribute.nexthop import NextHop
def ob_nh_construct(b: int) -> bool:
    assume(0 <= b < 256)
    ip = '%s.%s.%s.%s' % (10, b, 0, 1)
    raw = NextHop.construct(ip)
    return raw == bytes([0x40, 3, 4, 10, b, 0, 1])

def ob_nh_fmt(b: int) -> bool:
    assume(0 <= b < 256)
    ip = '%s.%s.%s.%s' % (10, b, 0, 1)
    return len(ip) >= 8

def ob_nh_parse(b: int) -> bool:
    assume(0 <= b < 256)
    ip = '%s.%s.%s.%s' % (10, b, 0, 1)
    out = NextHop.parse(bytes([10, b, 0, 1]))
    return out == ip

def ob_nh_parse2(b: int) -> bool:
    assume(0 <= b < 256)
    out = NextHop.parse(bytes([10, b, 0, 1]))
    return len(out) >= 8

def ob_m1(b: int) -> bool:
    from vf.env import netaddr_model as m
    assume(0 <= b < 256)
    ip = '%s.%s.%s.%s' % (10, b, 0, 1)
    return m.IPAddress(ip).value == 10*2**24 + b*65536 + 1

def ob_m2(b: int) -> bool:
    assume(0 <= b < 256)
    ip = '%s.%s.%s.%s' % (10, b, 0, 1)
    parts = ip.split('.')
    return len(parts) == 4

def ob_m3(b: int) -> bool:
    assume(0 <= b < 256)
    ip = '%s.%s.%s.%s' % (10, b, 0, 1)
    parts = ip.split('.')
    return int(parts[1]) == b

def ob_m4(b: int) -> bool:
    assume(0 <= b < 256)
    ip = '%s.%s.%s.%s' % (10, b, 0, 1)
    return ':' not in ip

def ob_m5(b: int) -> bool:
    assume(0 <= b < 256)
    ip = '%s.%s.%s.%s' % (10, b, 0, 1)
    parts = ip.split('.')
    p = parts[1]
    for ch in p:
        if ch < '0' or ch > '9':
            return False
    return True

def ob_m6(b: int) -> bool:
    assume(0 <= b < 256)
    ip = '%s.%s.%s.%s' % (10, b, 0, 1)
    parts = ip.split('.')
    p = parts[1]
    if len(p) > 1 and p[0] == '0':
        return False
    return True

def ob_m7(b: int) -> bool:
    assume(0 <= b < 256)
    ip = '%s.%s.%s.%s' % (10, b, 0, 1)
    parts = ip.split('.')
    p = parts[1]
    for ch in p:
        o = ord(ch)
        if o < 48 or o > 57:
            return False
    return True
def ob_m8(b: int) -> bool:
    assume(0 <= b < 256)
    ip = '%s.%s.%s.%s' % (10, b, 0, 1)
    parts = ip.split('.')
    p = parts[1]
    return p.isdigit()

def ob_atomic(a: int) -> bool:
    assume(0 <= a < 2 ** 32)
    raw = Update.construct({'attr': {4: a, 6: ''}})
    out = Update.parse(None, raw[19:])
    return out['attr'] == {4: a, 6: ''}

from yabgp.message.attribute.community import Community
def ob_c1(a: int) -> bool:
    assume(0 <= a < 65536)
    raw = Community.construct(['100:%s' % a])
    return len(raw) == 7

def ob_c2(a: int) -> bool:
    assume(0 <= a < 65536)
    s = '100:%s' % a
    v = s.split(':')
    return int(v[0]) * 65536 + int(v[1]) == 100 * 65536 + a

def ob_c3(a: int) -> bool:
    assume(0 <= a < 65536)
    s = ('100:%s' % a).upper()
    return len(s) >= 5

def ob_c4(a: int) -> bool:
    assume(0 <= a < 65536)
    s = ('100:%s' % a)
    d = {'NO_EXPORT': 1, 'NOPEER': 2, 'ABCDE': 3, 'ABCDEFGH': 5}
    return s not in d

def ob_c5(a: int) -> bool:
    assume(0 <= a < 65536)
    out = Community.parse(bytes([0, 100, a // 256, a % 256]))
    return out == ['100:%s' % a]

def ob_psid(b0: int, b1: int, b2: int, b3: int) -> bool:
    from yabgp.message.attribute.sr.bgpprefixsid import BGPPrefixSID
    for x in (b0, b1, b2, b3):
        assume(0 <= x < 256)
    data = bytes([b0, b1, b2, b3])
    try:
        r = BGPPrefixSID.unpack(data)
    except Exception as e:
        import sys
        sys.stderr.write('EXC %s\n' % type(e).__name__)
        return True
    import sys
    from crosshair.tracers import NoTracing
    with NoTracing():
        sys.stderr.write('RET %r\n' % (type(r[0]['type']).__name__ if r else None,))
    return True

def ob_fs(x: int) -> bool:
    from yabgp.message.attribute.nlri.ipv4_flowspec import IPv4FlowSpec
    import traceback, sys
    try:
        r = IPv4FlowSpec.construct_operators('=256')
    except Exception:
        sys.stderr.write(traceback.format_exc())
        return False
    return True
