from vf.engine.driver import assume, cover
from yabgp.message.update import Update
P = {}

def ob_med(v: int) -> bool:
    assume(0 <= v < 2**32)
    raw = Update.construct({'attr': {4: v}})
    out = Update.parse(None, raw[19:])
    return out['attr'] == {4: v} and out['sub_error'] is None

def ob_prefix(a: int, b: int, c: int) -> bool:
    assume(0 <= a < 256 and 0 <= b < 256 and 0 <= c < 256)
    plen = P['plen']
    data = bytes([plen, a, b, c])
    out = Update.parse_prefix_list(data)
    k = 2 ** (24 - plen)
    v = ((a * 65536 + b * 256 + c) // k) * k
    exp = '%d.%d.%d.0/%d' % (v // 65536, (v // 256) % 256, v % 256, plen)
    return out == [exp]

def ob_nlri_rt(ip: int) -> bool:
    assume(0 <= ip < 2**32)
    plen = P['plen']
    shift = 32 - plen
    ip = (ip >> shift) << shift
    pfx = '%s.%s.%s.%s/%s' % (ip >> 24, (ip >> 16) & 255, (ip >> 8) & 255, ip & 255, plen)
    raw = Update.construct({'attr': {4: 5}, 'nlri': [pfx]})
    out = Update.parse(None, raw[19:])
    return out['nlri'] == [pfx]
