"""C06 - UPDATE encode/decode round trip, IPv4 unicast + standard attributes.

Every obligation: build a message dict from a *concrete shape* (P) and symbolic
values (a, b, c, d), run the real Update.construct -> Update.parse and require
exactly the values given (communities in the decoder's text form).
"""
from vf.props.common import (assume, cover, ip4, ip4_octets, ob, same, BOUNDARY32, OCTETS,
                             digit_classes, in_class)
from vf.ref.iana import WELL_KNOWN_COMMUNITIES
from yabgp.message.update import Update

CLAIMED = True
P = {}
LEVEL_TEXT = ('Bounded symbolic verification: for each concrete message shape (prefix length 0..32, announce/withdraw/both, '
              'each attribute alone and in combination, AS_PATH segment types and lengths across the extended-length boundary, '
              'each community kind) the real Update.construct -> Update.parse round trip is decided by z3 for all values of the '
              'symbolic fields (address octets, 32-bit MED/LOCAL_PREF, AS numbers, aggregator, community halves, ...), '
              'not sampled. Shapes are enumerated, values are solver-quantified.')
LEVEL_NOTE = ('Trusted: CrossHair models + engine extension (lemmas discharged per run), netaddr model for symbolic IPv4 text '
              '(counterexamples and one witness per obligation replayed with the real netaddr). At most 4 symbolic textual '
              'fields per obligation, other fields at boundary constants; traffic-rate float concretised.')
LEVEL_ADDED = 'Also: An ordinary AS_PATH constructed after one of more than 255 octets in the same process. The faithful-send obligation of C16 (REST send view) for announce / LOCAL_PREF / withdraw / extended-community shapes.'
TECHNIQUE = 'symbolic execution of Update.construct/parse (CrossHair+z3), shape-concrete/value-symbolic round-trip obligations, replayed counterexamples'
EXPLANATION = 'C06: round trip Update.construct -> Update.parse per shape; symbolic field values.'
BOUNDS = ('prefix length 0..32 (all), <=3 prefixes per list, <=4 symbolic numeric fields per obligation, AS_PATH segments '
          '<=2 with lengths {0,1,2,63,64,126,127,128,255}, communities <=3 per attribute; IEEE float of traffic-rate concretised')
ASSUMPTIONS = ['symbolic IPv4 text handled by vf/env/netaddr_model.py (validated by replay with real netaddr)',
               'fields beyond the 4 symbolic ones per obligation take boundary constants',
               'traffic-rate (IEEE float) value concretised from a pool']
BUDGET = {'quick': 300, 'thorough': 1500}


def roundtrip(msg, asn4, expect_attr=None):
    raw = Update.construct(msg, asn4)
    if raw is None:
        return False
    out = Update.parse(None, raw[19:], asn4)
    if out['sub_error'] is not None:
        return False
    exp_attr = expect_attr if expect_attr is not None else (msg.get('attr') or {})
    got_attr = out['attr'] or {}
    if not same(got_attr, exp_attr):
        return False
    if not same(out['nlri'], msg.get('nlri') or []):
        return False
    if not same(out['withdraw'], msg.get('withdraw') or []):
        return False
    cover('rt')
    return True


def _prefix(a, b, c, d, plen):
    """canonical prefix text for octets masked to plen (octets symbolic or concrete)."""
    v = ((a * 256 + b) * 256 + c) * 256 + d
    k = 2 ** (32 - plen)
    v = (v // k) * k
    return '%s/%s' % (ip4(v), plen)


BASE_ATTR = {1: 0, 2: [(2, [65001])], 3: '10.0.0.1'}


def ob_nlri(a: int, b: int, c: int, d: int) -> bool:
    """P: plen, mode (announce|withdraw|both), sym (which octets are symbolic), fixed octets."""
    plen, mode = P['plen'], P['mode']
    o = list(P['octets'])
    vals = [a, b, c, d]
    for i in range(4):
        if i in P['sym']:
            assume(0 <= vals[i] < 256)
            o[i] = vals[i]
    pfx = _prefix(o[0], o[1], o[2], o[3], plen)
    other = P.get('other', '192.0.2.0/24')
    msg = {}
    if mode == 'announce':
        msg = {'attr': dict(BASE_ATTR), 'nlri': [pfx]}
    elif mode == 'withdraw':
        msg = {'withdraw': [pfx]}
    elif mode == 'both':
        msg = {'attr': dict(BASE_ATTR), 'nlri': [pfx], 'withdraw': [other]}
    elif mode == 'both2':
        msg = {'attr': dict(BASE_ATTR), 'nlri': [other], 'withdraw': [pfx]}
    elif mode == 'attr+withdraw':
        msg = {'attr': dict(BASE_ATTR), 'withdraw': [pfx]}
    elif mode == 'list3':
        msg = {'attr': dict(BASE_ATTR), 'nlri': [other, pfx, '10.0.0.0/8']}
    elif mode == 'wlist3':
        msg = {'withdraw': ['10.0.0.0/8', pfx, other]}
    return roundtrip(msg, False)


def ob_u32(a: int, b: int, c: int, d: int) -> bool:
    """MED / LOCAL_PREF / ORIGIN / ATOMIC_AGGREGATE with symbolic 32-bit values."""
    kind = P['kind']
    if kind == 'med':
        assume(0 <= a < 2 ** 32)
        return roundtrip({'attr': {4: a}}, P.get('asn4', False))
    if kind == 'localpref':
        assume(0 <= a < 2 ** 32)
        return roundtrip({'attr': {5: a}}, P.get('asn4', False))
    if kind == 'origin':
        assume(0 <= a <= 2)
        return roundtrip({'attr': {1: a}}, False)
    if kind == 'med+localpref+origin+atomic':
        assume(0 <= a < 2 ** 32 and 0 <= b < 2 ** 32 and 0 <= c <= 2)
        return roundtrip({'attr': {1: c, 4: a, 5: b, 6: ''}}, False)
    raise AssertionError(kind)


def ob_ipattr(a: int, b: int, c: int, d: int) -> bool:
    """NEXT_HOP / ORIGINATOR_ID / CLUSTER_LIST / AGGREGATOR with symbolic octets (and AS)."""
    kind = P['kind']
    o = list(P['octets'])
    vals = [a, b, c, d]
    for i in range(4):
        if i in P['sym']:
            assume(0 <= vals[i] < 256)
            o[i] = vals[i]
    ip = ip4_octets(o[0], o[1], o[2], o[3])
    if kind == 'nexthop':
        return roundtrip({'attr': {3: ip}}, False)
    if kind == 'originator':
        return roundtrip({'attr': {9: ip}}, False)
    if kind == 'cluster':
        lst = [ip] + list(P.get('more', []))
        return roundtrip({'attr': {10: lst}}, False)
    raise AssertionError(kind)


def ob_aggregator(asn: int, a: int, b: int) -> bool:
    asn4 = P['asn4']
    assume(0 <= asn < (2 ** 32 if asn4 else 2 ** 16))
    o = list(P['octets'])
    if 0 in P['sym']:
        assume(0 <= a < 256)
        o[P['pos'][0]] = a
    if 1 in P['sym']:
        assume(0 <= b < 256)
        o[P['pos'][1]] = b
    ip = ip4_octets(o[0], o[1], o[2], o[3])
    return roundtrip({'attr': {7: (asn, ip)}}, asn4)


def ob_aspath(a: int, b: int, c: int, d: int) -> bool:
    """P: segs = [(type, n)], asn4, sympos = [(seg, idx)] positions that take a,b,c,d."""
    asn4 = P['asn4']
    hi = 2 ** 32 if asn4 else 2 ** 16
    vals = [a, b, c, d]
    segs = []
    fill = P.get('fill', 65000 if not asn4 else 4200000000)
    for (t, n) in P['segs']:
        segs.append((t, [fill] * n))
    for k, (si, idx) in enumerate(P['sympos']):
        assume(0 <= vals[k] < hi)
        segs[si][1][idx] = vals[k]
    return roundtrip({'attr': {2: segs}}, asn4)


_WK_ITEMS = sorted(WELL_KNOWN_COMMUNITIES.items(), key=lambda kv: kv[1])
_WK_VALUES = sorted(set(WELL_KNOWN_COMMUNITIES.values()))


def _community_text_ok(text, value):
    """the decoder's text form of a community (hi, lo): 'hi:lo' or an IANA well-known name.  Decided by comparing the
    two halves with each registered value (a dictionary lookup with a symbolic text key would fork once per name and
    multiply across the communities of the list; div / mod of a symbolic sum is slow in the solver)"""
    hi, lo = value
    for v in _WK_VALUES:
        if hi == v // 65536 and lo == v % 65536:
            return isinstance(text, str) and (text.upper() in [n for n, x in _WK_ITEMS if x == v] or
                                              text == '%s:%s' % (v // 65536, v % 65536))
    return text == '%s:%s' % (hi, lo)


def ob_aspath_after_long(a: int, b: int) -> bool:
    """a short AS_PATH constructed after one of more than 255 octets in the same process round-trips like the first"""
    asn4 = P['asn4']
    hi = 2 ** 32 if asn4 else 2 ** 16
    assume(1 <= a < hi and 1 <= b < hi)
    big = [(2, [(64000 + i % 1000) for i in range(P.get('n', 130))])]
    if not roundtrip({'attr': {2: big}}, asn4):
        return False
    cover('long')
    return roundtrip({'attr': {1: 0, 2: [(2, [a, b])], 3: '10.0.0.1'}}, asn4) and roundtrip({'attr': {2: []}}, asn4)


def ob_rest_send(med: int, a: int, b: int, las: int, ras: int, lp: int) -> bool:
    """an UPDATE requested through POST /v1/peer/<ip>/send/update goes out with exactly the requested attributes
    (C16's faithful-send obligation, run here because what the agent can be *asked* to send includes the REST path)"""
    from vf.props import C16
    C16.P = dict(P['inner'])
    return C16.ob_send_update(med, a, b, las, ras, lp)


def ob_community(a: int, b: int, c: int, d: int) -> bool:
    """P: n communities; entries 0 and 1 symbolic halves (a:b, c:d), others concrete."""
    assume(0 <= a < 65536 and 0 <= b < 65536)
    comms = ['%s:%s' % (a, b)]
    values = [(a, b)]
    if P['n'] >= 2:
        assume(0 <= c < 65536 and 0 <= d < 65536)
        in_class(c, P.get('cls_c'))
        in_class(d, P.get('cls_d'))
        # the well-known names live in 65535:x and 0xFFFF0000-range values: split so that the per-name forks of the two
        # entries do not multiply
        mode = P.get('mode')
        if mode == 'second-plain':
            assume(c < 65535)
        elif mode == 'first-plain':
            assume(a < 65535)
            assume(c == 65535)
        elif mode == 'both-reserved':
            assume(a == 65535)
            assume(c == 65535)
        comms.append('%s:%s' % (c, d))
        values.append((c, d))
    for extra in P.get('more', []):
        comms.append(extra)
        hi, lo = extra.split(':')
        values.append((int(hi), int(lo)))
    raw = Update.construct({'attr': {8: comms}}, False)
    out = Update.parse(None, raw[19:], False)
    if out['sub_error'] is not None or set(out['attr'].keys()) != {8}:
        return False
    got = out['attr'][8]
    if len(got) != len(values):
        return False
    for t, v in zip(got, values):
        if not _community_text_ok(t, v):
            return False
    cover('rt')
    return True


def ob_community_name(a: int) -> bool:
    """a well-known name given by name round-trips to the same name."""
    name = P['name']
    assume(0 <= a < 65536)
    comms = [name, '100:%s' % a]
    raw = Update.construct({'attr': {8: comms}}, False)
    out = Update.parse(None, raw[19:], False)
    if out['sub_error'] is not None:
        return False
    cover('rt')
    return out['attr'] == {8: comms}


def ob_largecomm(a: int, b: int, c: int, d: int) -> bool:
    assume(0 <= a < 2 ** 32 and 0 <= b < 2 ** 32 and 0 <= c < 2 ** 32)
    in_class(b, P.get('cls_b'))
    in_class(c, P.get('cls_c'))
    lst = ['%s:%s:%s' % (a, b, c)] + list(P.get('more', []))
    return roundtrip({'attr': {32: lst}}, False)


# extended communities: kind -> (code, builder(a,b,c) -> construct item tail, expected text)
def _ext(kind, a, b, c):
    if kind in ('rt0', 'ro0', 'redirect-vrf', 'dmzlink-bw'):
        code = {'rt0': 0x0002, 'ro0': 0x0003, 'redirect-vrf': 0x8008, 'dmzlink-bw': 0x4004}[kind]
        name = {'rt0': 'route-target', 'ro0': 'route-origin', 'redirect-vrf': 'redirect-vrf',
                'dmzlink-bw': 'dmzlink-bw'}[kind]
        assume(0 <= a < 2 ** 16 and 0 <= b < 2 ** 32)
        return [code, '%s:%s' % (a, b)], '%s:%s:%s' % (name, a, b)
    if kind in ('rt2', 'ro2'):
        code = {'rt2': 0x0202, 'ro2': 0x0203}[kind]
        name = {'rt2': 'route-target', 'ro2': 'route-origin'}[kind]
        assume(0 <= a < 2 ** 32 and 0 <= b < 2 ** 16)
        return [code, '%s:%s' % (a, b)], '%s:%s:%s' % (name, a, b)
    if kind in ('rt1', 'ro1'):
        code = {'rt1': 0x0102, 'ro1': 0x0103}[kind]
        name = {'rt1': 'route-target', 'ro1': 'route-origin'}[kind]
        assume(0 <= a < 256 and 0 <= b < 256 and 0 <= c < 2 ** 16)
        ip = ip4_octets(P.get('o0', 10), a, b, P.get('o3', 1))
        return [code, '%s:%s' % (ip, c)], '%s:%s:%s' % (name, ip, c)
    if kind == 'redirect-nexthop':
        assume(0 <= a < 256 and 0 <= b < 256 and 0 <= c < 2 ** 16)
        ip = ip4_octets(P.get('o0', 10), a, b, P.get('o3', 1))
        return [0x0800, ip, c], 'redirect-nexthop:%s:%s' % (ip, c)
    if kind == 'color':
        assume(0 <= a < 2 ** 32)
        return [0x030b, a], 'color:%s' % a
    if kind == 'encapsulation':
        assume(0 <= a < 2 ** 32)
        return [0x030c, a], 'encapsulation:%s' % a
    if kind == 'traffic-marking':
        assume(0 <= a < 256)
        return [0x8009, a], 'traffic-marking-dscp:%s' % a
    if kind == 'traffic-action':
        assume(0 <= a <= 1 and 0 <= b <= 1)
        return [0x8007, {'s': a, 't': b}], 'traffic-action:S:%s,T:%s' % (a, b)
    if kind == 'mac-mobility':
        assume(0 <= a < 256 and 0 <= b < 2 ** 32)
        return [0x0600, a, b], 'mac-mobility:%s:%s' % (a, b)
    if kind == 'esi-label':
        assume(0 <= a < 256 and 0 <= b < 2 ** 20)
        return [0x0601, a, b], 'esi-label:%s:%s' % (a, b)
    if kind == 'traffic-rate':
        assume(0 <= a < 2 ** 16)
        rate = P.get('rate', 0)
        return [0x8006, '%s:%s' % (a, rate)], 'traffic-rate:%s:%s' % (a, rate)
    if kind in ('es-import', 'router-mac'):
        code = {'es-import': 0x0602, 'router-mac': 0x0603}[kind]
        mac = P.get('mac', '00-11-22-33-44-55')
        return [code, mac], '%s:%s' % (kind, mac)
    raise AssertionError(kind)


def ob_extcomm(a: int, b: int, c: int) -> bool:
    item, text = _ext(P['kind'], a, b, c)
    items = [item] + [list(x) for x in P.get('more', [])]
    texts = [text] + list(P.get('more_text', []))
    raw = Update.construct({'attr': {16: items}}, False)
    if raw is None:
        return False
    out = Update.parse(None, raw[19:], False)
    if out['sub_error'] is not None:
        return False
    cover('rt')
    return out['attr'] == {16: texts} and out['nlri'] == [] and out['withdraw'] == []


def ob_full(a: int, b: int, c: int, d: int) -> bool:
    """all attributes in one message + nlri; a few symbolic values, the rest boundary constants."""
    asn4 = P['asn4']
    assume(0 <= a < 2 ** 32 and 0 <= b < 2 ** 32 and 0 <= c < (2 ** 32 if asn4 else 2 ** 16) and 0 <= d < 256)
    attr = {
        1: P.get('origin', 2), 2: [(2, [c, 64512]), (1, [1, 2])], 3: ip4_octets(10, d, 0, 1),
        4: a, 5: b, 6: '', 7: (c, '10.0.0.9'), 8: ['65000:%s' % (d,), 'NO_EXPORT'],
        9: '10.1.1.1', 10: ['1.1.1.1', '2.2.2.2'], 16: ['route-target:65000:1'], 32: ['1:2:3'],
    }
    send = dict(attr)
    send[16] = [[0x0002, '65000:1']]
    msg = {'attr': send, 'nlri': list(P.get('nlri', ['10.1.0.0/16']))}
    return roundtrip(msg, asn4, expect_attr=attr)


def ob_ipmodel(v: int) -> bool:
    """validation lemma for the netaddr model: int(IPAddress(str(IPAddress(v)))) == v, symbolic v"""
    import netaddr
    from vf.env import netaddr_model as m
    assume(0 <= v < 2 ** 32)
    s = str(m.IPAddress(v))
    w = m.IPAddress(s)
    return w.value == v and w.packed == m.IPAddress(v).packed


# ------------------------------------------------------------------------------------
def obligations(tier, seed):
    out = []
    quick = tier == 'quick'
    rot = seed % 4

    def sym_for(plen, k):
        """which octets are symbolic: those covered by plen, at most 2 (rotated)"""
        cov = [i for i in range(4) if i * 8 < plen]
        if len(cov) <= 2:
            return cov
        pairs = [[cov[-1], cov[0]], [cov[-1], cov[-2]], [cov[0], cov[1]], [cov[-1], cov[1 % len(cov)]]]
        return sorted(set(pairs[k % 4]))

    base = [203, 0, 113, 129]
    modes_q = ['announce', 'withdraw', 'both']
    modes_t = ['announce', 'withdraw', 'both', 'both2', 'attr+withdraw', 'list3', 'wlist3']
    for plen in range(0, 33):
        for mode in (modes_q if quick else modes_t):
            rots = [rot] if quick else [0, 1, 2, 3]
            seen = set()
            for k in rots:
                s = tuple(sym_for(plen, k))
                if s in seen:
                    continue
                seen.add(s)
                out.append(ob('C06/nlri/%s/plen=%d/sym=%s' % (mode, plen, ''.join(map(str, s))), 'ob_nlri',
                              {'plen': plen, 'mode': mode, 'sym': list(s), 'octets': base}, cap=90 if quick else 300))
    if quick:
        out.append(ob('C06/nlri/attr+withdraw/plen=24', 'ob_nlri',
                      {'plen': 24, 'mode': 'attr+withdraw', 'sym': [2], 'octets': base}, cap=90))
        out.append(ob('C06/nlri/list3/plen=17', 'ob_nlri', {'plen': 17, 'mode': 'list3', 'sym': [1, 2], 'octets': base}, cap=90))
    # numeric attributes
    for kind in ('med', 'localpref', 'origin', 'med+localpref+origin+atomic'):
        out.append(ob('C06/attr/%s' % kind, 'ob_u32', {'kind': kind}))
    # ip-valued attributes
    pairs = [[0, 1], [2, 3], [0, 3], [1, 2]]
    for kind in ('nexthop', 'originator', 'cluster'):
        for k, s in enumerate(pairs):
            if quick and k != rot:
                continue
            prm = {'kind': kind, 'sym': s, 'octets': [10, 255, 0, 1]}
            if kind == 'cluster':
                prm['more'] = ['0.0.0.0', '255.255.255.255'] if k % 2 == 0 else []
            out.append(ob('C06/attr/%s/sym=%s' % (kind, ''.join(map(str, s))), 'ob_ipattr', prm, cap=120 if quick else 300))
    for asn4 in (False, True):
        for k, pos in enumerate(pairs):
            if quick and k != rot:
                continue
            out.append(ob('C06/attr/aggregator/asn4=%s/pos=%s' % (asn4, ''.join(map(str, pos))), 'ob_aggregator',
                          {'asn4': asn4, 'sym': [0, 1], 'pos': pos, 'octets': [192, 0, 2, 255]}, cap=120 if quick else 300))
    # AS_PATH
    shapes = []
    for t in (1, 2, 3, 4):
        shapes.append(([(t, 2)], [(0, 0), (0, 1)]))
    shapes.append(([(2, 1), (1, 2)], [(0, 0), (1, 1)]))
    shapes.append(([(2, 0)], []))
    shapes.append(([], []))
    for asn4 in (False, True):
        lens = [63, 64] if asn4 else [126, 127, 128]
        lens_t = ([62, 65, 255] if asn4 else [125, 129, 255])
        for n in lens + ([] if quick else lens_t):
            shapes_n = [([(2, n)], [(0, 0), (0, n - 1)])]
            for segs, sp in shapes_n:
                out.append(ob('C06/aspath/asn4=%s/len=%d' % (asn4, n), 'ob_aspath',
                              {'asn4': asn4, 'segs': segs, 'sympos': sp}, cap=120 if quick else 300))
        for i, (segs, sp) in enumerate(shapes):
            out.append(ob('C06/aspath/asn4=%s/shape%d' % (asn4, i), 'ob_aspath', {'asn4': asn4, 'segs': segs, 'sympos': sp}))
        if not quick:
            out.append(ob('C06/aspath/asn4=%s/two-long' % asn4, 'ob_aspath',
                          {'asn4': asn4, 'segs': [(2, 100), (1, 100)], 'sympos': [(0, 99), (1, 0)]}, cap=300))
    for asn4 in (False, True):
        out.append(ob('C06/aspath/asn4=%s/short-after-long' % asn4, 'ob_aspath_after_long', {'asn4': asn4}, covers=['long']))
    for shape in ('announce', 'announce+lp', 'announce+withdraw', 'announce+ext'):
        for ibgp in (True, False):
            out.append(ob('C06/rest-send/%s/ibgp=%s' % (shape, ibgp), 'ob_rest_send', {'inner': {'shape': shape, 'ibgp': ibgp}},
                          cap=250))
    # communities
    out.append(ob('C06/community/n=1', 'ob_community', {'n': 1}, cap=120 if quick else 300))
    dc16, dc32 = digit_classes(16), digit_classes(32)
    if quick:
        cc, cd = dc16[seed % 5], dc16[(seed // 5 + 4) % 5]
        out.append(ob('C06/community/n=2/c=%s/d=%s' % (cc, cd), 'ob_community',
                      {'n': 2, 'more': ['65535:65281'], 'cls_c': cc, 'cls_d': cd}, cap=200))
    else:
        for mode in ('second-plain', 'first-plain', 'both-reserved'):
            out.append(ob('C06/community/n=2/%s' % mode, 'ob_community',
                          {'n': 2, 'more': ['65535:65281'], 'mode': mode}, cap=900))
    names = sorted(set(['PLANNED_SHUT', 'ACCEPT_OWN', 'ROUTE_FILTER_TRANSLATED_v4', 'ROUTE_FILTER_v4',
                        'ROUTE_FILTER_TRANSLATED_v6', 'ROUTE_FILTER_v6', 'BLACKHOLE', 'NO_EXPORT', 'NO_ADVERTISE',
                        'NO_EXPORT_SUBCONFED', 'NOPEER']))
    for nm in names:
        out.append(ob('C06/community/name=%s' % nm, 'ob_community_name', {'name': nm}))
    if quick:
        for cb, cc in ((dc32[9], dc32[seed % 10]), (dc32[(seed + 3) % 10], dc32[9])):
            out.append(ob('C06/largecomm/n=1/b=%s/c=%s' % (cb, cc), 'ob_largecomm', {'cls_b': cb, 'cls_c': cc}, cap=200))
    else:
        for cb in dc32:
            for cc in dc32:
                out.append(ob('C06/largecomm/n=1/b=%s/c=%s' % (cb, cc), 'ob_largecomm', {'cls_b': cb, 'cls_c': cc}, cap=600))
        out.append(ob('C06/largecomm/n=2', 'ob_largecomm',
                      {'more': ['4294967295:0:2147483648'], 'cls_b': dc32[9], 'cls_c': dc32[0]}, cap=600))
    for kind in ('rt0', 'rt1', 'rt2', 'ro0', 'ro1', 'ro2', 'redirect-vrf', 'redirect-nexthop', 'dmzlink-bw', 'color',
                 'encapsulation', 'traffic-marking', 'traffic-action', 'mac-mobility', 'esi-label', 'traffic-rate',
                 'es-import', 'router-mac'):
        prm = {'kind': kind}
        if kind == 'traffic-rate':
            for rate in ([0] if quick else [0, 1, 1000, 16777216]):
                out.append(ob('C06/extcomm/%s/rate=%d' % (kind, rate), 'ob_extcomm', {'kind': kind, 'rate': rate}))
            continue
        out.append(ob('C06/extcomm/%s' % kind, 'ob_extcomm', prm, cap=200 if quick else 600))
    out.append(ob('C06/extcomm/two', 'ob_extcomm', {'kind': 'rt0', 'more': [[0x030b, 7]], 'more_text': ['color:7']},
                  cap=200 if quick else 600))
    for asn4 in (False, True):
        out.append(ob('C06/full/asn4=%s' % asn4, 'ob_full', {'asn4': asn4}, cap=240 if quick else 900))
    out.append(ob('C06/model/netaddr-ipv4-text', 'ob_ipmodel', {}, cap=240 if quick else 600))
    return out
