"""C18 - message statistics equal what actually crossed the wire."""
from vf.props.common import assume, cover, ob
from vf.props import sess_common as SC
from vf import session as S

CLAIMED = True
P = {}
LEVEL_TEXT = ('Bounded symbolic verification, inductive: from every invariant session state with *symbolic pre-counters*, after one '
              'real event the increase of each sent counter equals the number of messages of that type found in the bytes written '
              'in the step, and the increase of each received counter equals the number of delivered frames of that type that have '
              'at least the type\'s minimum length; since the relation holds for arbitrary pre-counters it holds after any history. '
              'Also along symbolic event sequences from boot, read through the REST statistic helper.')
LEVEL_NOTE = 'Twisted as modelled. Over-long frames of fixed-length types are not part of the obligations (only reference-encoded and too-short frames).'
LEVEL_ADDED = 'Also: type-specific bad lengths, out-of-range UPDATE length fields, and every message kind delivered in two TCP segments (cut after 5 / 19 / all but one octet). ROUTE-REFRESH with the local route-refresh capabilities off; NOTIFICATION followed by more messages in one segment (only what precedes the close is received). The 29-octet OPEN (no optional parameter). UPDATEs that carry only an MP attribute (withdrawal of a rule never announced, IPv6, unknown family); an UPDATE of exactly 4096 octets.'
TECHNIQUE = 'symbolic one-step counter relation with symbolic pre-counters + bounded symbolic sequences (CrossHair+z3)'
EXPLANATION = 'C18: per-step counter deltas vs the transport log and the delivered stream.'
BOUNDS = 'all (state, event class) pairs; pre-counters 0..2^31; sequences from boot depth 4 (quick) / 5 (thorough)'
ASSUMPTIONS = ['Twisted contract as modelled']
BUDGET = {'quick': 300, 'thorough': 1200}

NAMES = {1: 'Opens', 2: 'Updates', 3: 'Notifications', 4: 'Keepalives', 5: 'RouteRefresh', 128: 'RouteRefresh'}
MIN_LEN = {1: 29, 2: 23, 3: 21, 4: 19, 5: 23, 128: 23}


def frames_in(data):
    """(type, length) of the complete well-framed messages at the start of a delivered chunk (reference deframer)"""
    out, i = [], 0
    while i + 19 <= len(data):
        if data[i:i + 16] != b'\xff' * 16:
            break
        length = data[i + 16] * 256 + data[i + 17]
        typ = data[i + 18]
        if length < 19 or length > 4096 or i + length > len(data):
            break
        out.append((typ, length))
        i += length
    return out


def expected_recv(ev, data):
    exp = {'Opens': 0, 'Updates': 0, 'Notifications': 0, 'Keepalives': 0, 'RouteRefresh': 0}
    if data is not None:
        frames = frames_in(data)
        if ev == 'notif_then_more':
            # the NOTIFICATION ends the session: what stands behind it in the segment is not received by anybody
            frames = frames[:1]
        for typ, length in frames:
            if typ in NAMES and length >= MIN_LEN[typ]:
                exp[NAMES[typ]] += 1
    return exp


def counted_writes(obs):
    exp = {'Opens': 0, 'Updates': 0, 'Notifications': 0, 'Keepalives': 0, 'RouteRefresh': 0}
    for wtuple in obs['writes']:
        if wtuple[0] in NAMES:
            exp[NAMES[wtuple[0]]] += 1
    return exp


def snapshot(p):
    return dict(p.msg_sent_stat), dict(p.msg_recv_stat)


def ob_step(a: int, b: int, c: int, hold: int, s0: int, r0: int) -> bool:
    state, ev = P['state'], P['ev']
    assume(0 <= s0 < 2 ** 31 and 0 <= r0 < 2 ** 31)
    if state in (S.OPENCONFIRM, S.ESTABLISHED):
        assume(hold == 0 or 3 <= hold < 65536)
        if ev in ('kat', 'holdt'):
            assume(hold > 0)
    else:
        hold = None
    w = S.in_state(state, dict(P.get('cfg', {})), hold=hold)
    p = w.fsm.protocol
    for k in p.msg_sent_stat:
        p.msg_sent_stat[k] = s0 + len(k)
        p.msg_recv_stat[k] = r0 + 2 * len(k)
    sent0, recv0 = snapshot(p)
    mark = w.mark()
    data = None
    if ev in SC.MSG_EVENTS:
        data = SC.message_for(ev, w, a, b, c)
        if P.get('cut'):
            # the same message in two TCP segments: a counter must not depend on how often parse_buffer looks at it
            cut = P['cut'] if P['cut'] > 0 else len(data) + P['cut']
            w.ev_data(data[:cut])
            w.ev_data(data[cut:])
        else:
            w.ev_data(data)
    else:
        SC.inject(w, ev, a, b, c)
    obs = SC.observe(w, mark)
    sent1, recv1 = snapshot(p)
    es, er = counted_writes(obs), expected_recv(ev, data)
    cover('stepped')
    for k in sent0:
        if sent1[k] - sent0[k] != es[k]:
            return False
        if recv1[k] - recv0[k] != er[k]:
            return False
    return True


def ob_seq(e1: int, e2: int, e3: int, e4: int, e5: int) -> bool:
    """along a history from boot: counters of the current connection == totals of its write log / delivered frames"""
    tot = {}

    def step_check(w, info):
        p = w.fsm.protocol
        if p is None:
            return True
        key = id(p)
        if key not in tot:
            tot[key] = ({'Opens': 0, 'Updates': 0, 'Notifications': 0, 'Keepalives': 0, 'RouteRefresh': 0},
                        {'Opens': 0, 'Updates': 0, 'Notifications': 0, 'Keepalives': 0, 'RouteRefresh': 0})
        ts, tr = tot[key]
        cw = counted_writes(info['obs'])
        for k in cw:
            ts[k] += cw[k]
        ev = info['ev']
        if ev in SC.MSG_EVENTS:
            vals = SC.seq_vals(P, ev)
            er = expected_recv(ev, SC.message_for(ev, w, vals[0], vals[1], vals[2]))
            for k in er:
                tr[k] += er[k]
        from yabgp.api import utils as api_utils
        stat = api_utils.get_peer_msg_statistic(w.cfg['remote_addr'])
        return p.msg_sent_stat == ts and p.msg_recv_stat == tr and \
            stat.get('send') == ts and stat.get('receive') == tr
    return SC.run_seq(P, [e1, e2, e3, e4, e5], step_check)


ALPHA = ['tcp_ok', 'tcp_fail', 'timer', 'open_ok', 'ka', 'upd', 'notif', 'hdr_type', 'rr', 'open_badver', 'upd_bad',
         'manual_stop', 'peer_close', 'close_done', 'open_short']


def obligations(tier, seed):
    quick = tier == 'quick'
    out = []
    for state in (S.OPENSENT, S.OPENCONFIRM, S.ESTABLISHED):
        for ev in SC.EVENTS_BY_STATE[state]:
            out.append(ob('C18/step/%s/%s' % (S.STATE_NAMES[state], ev), 'ob_step', {'state': state, 'ev': ev},
                          covers=['stepped'], cap=120))
            if ev in ('open_ok', 'upd', 'notif', 'rr', 'open_badver', 'upd_bad') and not (quick and state == S.OPENCONFIRM):
                for cut in (19, -1, 5):
                    out.append(ob('C18/step/%s/%s/cut=%d' % (S.STATE_NAMES[state], ev, cut), 'ob_step',
                                  {'state': state, 'ev': ev, 'cut': cut}, covers=['stepped'], cap=120))
            if ev == 'upd_mp':
                for kind in ('vpn-withdraw', 'ipv6-unreach', 'unknown-family'):
                    out.append(ob('C18/step/%s/upd_mp/%s' % (S.STATE_NAMES[state], kind), 'ob_step',
                                  {'state': state, 'ev': ev, 'cfg': {'mp_kind': kind}}, covers=['stepped'], cap=120))
            if ev == 'open_ok':
                # the shortest OPEN there is: 29 octets, no optional parameter (a peer without the 4-octet-AS capability)
                out.append(ob('C18/step/%s/open_ok/no-optional-parameters' % S.STATE_NAMES[state], 'ob_step',
                              {'state': state, 'ev': ev, 'cfg': {'peer_as4': False}}, covers=['stepped'], cap=120))
            if ev in ('rr', 'rr128'):
                # the same with the route-refresh capabilities switched off locally: a frame from the wire is counted
                # whether or not the agent likes it
                caps = dict(S.DEFAULT_CFG['caps'], route_refresh=False, cisco_route_refresh=False, enhanced_route_refresh=False)
                out.append(ob('C18/step/%s/%s/no-local-rr-capability' % (S.STATE_NAMES[state], ev), 'ob_step',
                              {'state': state, 'ev': ev, 'cfg': {'caps': caps}}, covers=['stepped'], cap=120))
            if ev == 'badlen':
                for (t, ln) in SC.BADLEN[1:]:
                    out.append(ob('C18/step/%s/%s/type=%d/len=%d' % (S.STATE_NAMES[state], ev, t, ln), 'ob_step',
                                  {'state': state, 'ev': ev, 'cfg': {'badlen': (t, ln)}}, covers=['stepped'], cap=120))
    k = 4 if quick else 5
    for first_ev in ('tcp_ok',):
        for second in ('open_ok', 'ka', 'upd', 'notif', 'hdr_type', 'rr', 'open_badver', 'upd_bad', 'manual_stop',
                       'peer_close', 'open_short', 'timer'):
            out.append(ob('C18/seq/k=%d/%s/%s' % (k, first_ev, second), 'ob_seq',
                          {'alphabet': ALPHA, 'k': k, 'first': ALPHA.index(first_ev), 'second': ALPHA.index(second)},
                          covers=[], cap=280 if quick else 1100))
    return out
