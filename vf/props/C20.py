"""C20 - the on-disk message log stays well formed and gap-free across rotation, restart and crash."""
import json

from vf.props.common import assume, cover, known, ob
from vf.env import fakefs

CLAIMED = True
P = {}
LEVEL_TEXT = ('Bounded symbolic verification of the real DefaultHandler on an in-memory file system: an event history (enumerated '
              'callback pattern) is written with a symbolic rotation threshold; after a symbolic number of events the process is '
              'restarted, or crashes in the middle of a write at a symbolic character offset (only a prefix of the line in flight '
              'reaches the disk); a new handler instance starts on what is on disk and more events follow; the audit requires: the '
              'restart does not exit, every line of every file is one complete JSON object with keys t, seq, type, msg, and seq '
              'increases by exactly one from line to line across files and restarts.')
LEVEL_NOTE = ('The solver enumerates crash offsets / event counts through realised slices - a finite-domain use of the technique, the '
              'weakest in this design. File-system contract of vf/env/fakefs.py; real-FS effects outside it are not covered.')
LEVEL_ADDED = 'Also: upper-case peer address, records larger than 4 KiB, several files created within one second, the first KEEPALIVE of a session; thorough tier uses 11 dense boundary crash offsets per line. Event text that is not valid UTF-8 (surrogateescape) - the fake file encodes text as a real one does.'
TECHNIQUE = 'symbolic execution of DefaultHandler on a fake file system with symbolic crash offset, restart point and rotation threshold (CrossHair+z3)'
EXPLANATION = 'C20: restart / crash / rotation audit of the message log.'
BOUNDS = 'histories of <= 4 events before the restart/crash and <= 2 after; crash offset 0..len(line); rotation threshold 1..400 characters or none'
ASSUMPTIONS = ['file-system contract of vf/env/fakefs.py (append-only, flush moves the buffer, a crash keeps a prefix of the flush in flight)']
BUDGET = {'quick': 300, 'thorough': 900}

PEER = '10.0.0.2'


class FakePeer(object):
    msg_recv_stat = {'Keepalives': 2}

    def __init__(self):
        class factory(object):
            peer_addr = P.get('peer', PEER)
        self.factory = factory


def new_handler(fs, maxsize, write_keepalive=True):
    import yabgp.handler.default_handler as dh
    from vf import session as S
    conf = S._conf()
    fakefs.install(dh, fs)
    conf.set_override('write_disk', True, group='message')
    conf.set_override('write_dir', '/data/bgp/', group='message')
    conf.set_override('write_keepalive', write_keepalive, group='message')
    conf.bgp.running_config = {'remote_addr': P.get('peer', PEER)}

    class M(object):
        write_disk = True
        write_dir = '/data/bgp/'
        write_keepalive = True
        write_msg_max_size = maxsize

    class C(object):
        message = M
        bgp = conf.bgp
    dh.CONF = C           # the rotation threshold may be symbolic: oslo.config would coerce it
    h = dh.DefaultHandler()
    h.init()
    return h


def fire(h, ev, i):
    p = FakePeer()
    msg = {'attr': {1: 0, 5: i}, 'nlri': ['10.%d.0.0/16' % i], 'withdraw': []}
    if ev == 'update':
        h.update_received(p, 1.5 + i, msg)
    elif ev == 'big_update':
        big = {'attr': {1: 0, 5: i}, 'nlri': ['10.%d.%d.0/24' % (j // 256, j % 256) for j in range(400)], 'withdraw': []}
        h.update_received(p, 1.5 + i, big)
    elif ev == 'update_error':
        h.on_update_error(p, 1.5 + i, msg)
    elif ev == 'keepalive':
        h.keepalive_received(p, 2.5 + i)
    elif ev == 'keepalive_first':
        # the first KEEPALIVE of a session (the one that establishes it)
        p.msg_recv_stat = {'Keepalives': 1}
        h.keepalive_received(p, 2.5 + i)
    elif ev == 'send_open':
        h.send_open(p, 3.5, {'version': 4, 'asn': 65001})
    elif ev == 'open':
        h.open_received(p, 3.6, {'version': 4, 'asn': 65002, 'capabilities': {}})
    elif ev == 'open_none':
        h.open_received(p, 3.6, None)
    elif ev == 'rr':
        h.route_refresh_received(p, {'afi': 1, 'res': 0, 'safi': 1}, 5)
    elif ev == 'notification':
        h.notification_received(p, {'error': 'Cease', 'sub_error': None, 'data': "b''"})
    elif ev == 'conn_lost':
        h.on_connection_lost(p)
    elif ev == 'conn_failed':
        h.on_connection_failed(P.get('peer', PEER), 'Connection refused')
    elif ev == 'conn_failed_nonutf8':
        # an OS error text in another locale, as Python hands it over (surrogateescape) - and plain non-ASCII text
        h.on_connection_failed(P.get('peer', PEER), b'Connexion refus\xe9e'.decode('utf-8', 'surrogateescape') + ' \u00e9\u4e2d')
    elif ev == 'established':
        h.on_established(P.get('peer', PEER), 1.0)
    else:
        raise AssertionError(ev)


def audit(fs):
    """every line a complete JSON object with the documented keys; seq 1, 2, 3, ... across files in name order"""
    names = sorted(n for n in fs.files if n.startswith('/data/bgp/%s/msg/' % P.get('peer', PEER).lower()))
    expect = 1
    for n in names:
        data = fs.files[n]
        if data == '':
            continue
        if not data.endswith('\n'):
            return False
        for line in data[:-1].split('\n'):
            try:
                rec = json.loads(line)
            except Exception:
                return False
            if not isinstance(rec, dict) or not all(k in rec for k in ('t', 'seq', 'type', 'msg')):
                return False
            if rec['seq'] != expect:
                return False
            expect += 1
    return expect


def ob_log(n: int, k: int, maxsize: int) -> bool:
    """n events, then restart (mode restart) or crash while writing event n+1 at character offset k; then more events"""
    events, after = P['events'], P['after']
    mode = P['mode']
    assume(0 <= n <= len(events) - (1 if mode == 'crash' else 0))
    if P.get('n') is not None:
        assume(n == P['n'])
    if P.get('rotate'):
        assume(1 <= maxsize <= 400)
    else:
        assume(maxsize == 10 ** 9)
    fs = fakefs.FS()
    fs.tick = P.get('tick', 1)
    try:
        h = new_handler(fs, maxsize)
    except SystemExit:
        return False
    written = 0
    for i in range(n):
        fire(h, events[i], i)
        if events[i] != 'established':
            written += 1
    if mode == 'crash':
        if P.get('offsets') == 'dense':
            assume(0 <= k <= 10)
            fs.crash_at = ('dense', k)
        else:
            # boundary offsets of the line in flight: 0, 1, 2, middle, all but "}\n", all but "\n", whole line
            assume(0 <= k <= 6)
            fs.crash_at = ('boundary', k)
        try:
            fire(h, events[n], n)
            # no flush happened (an event that writes nothing): not a crash scenario
            assume(False)
        except fakefs.Crash:
            cover('crashed')
    # ---- a new process starts on whatever is on disk ------------------------------------------------------
    names = sorted(nm for nm in fs.files if nm.startswith('/data/bgp/%s/msg/' % P.get('peer', PEER).lower()))
    newest = fs.files[names[-1]] if names else ''
    known('torn-tail-at-restart', newest != '' and not newest.endswith('\n'))
    known('newest-file-empty-after-rotation', len(names) > 1 and newest == '')
    try:
        h2 = new_handler(fs, maxsize)
    except SystemExit:
        return False            # the agent refuses to start because of its own log
    cover('restarted')
    for j, ev in enumerate(after):
        fire(h2, ev, 10 + j)
    total = audit(fs)
    if total is False:
        return False
    # nothing that was completely written before the restart may be lost or renumbered
    return total - 1 >= written + len([e for e in after if e != 'established'])


def obligations(tier, seed):
    quick = tier == 'quick'
    out = []
    patterns = {
        'updates': ['update', 'update', 'update', 'update'],
        'session': ['send_open', 'open', 'keepalive', 'update', 'notification'],
        'mixed': ['conn_failed', 'send_open', 'open_none', 'update_error', 'rr'],
        'drops': ['update', 'conn_lost', 'conn_failed', 'established', 'update'],
    }
    afters = {'two': ['update', 'keepalive'], 'none': [], 'one': ['conn_lost']}
    # a peer address written with upper-case hex digits (the log directory is the lower-cased address), and a record
    # larger than 4 KiB as the last line before the restart
    for rotate in (False, True):
        out.append(ob('C20/restart/updates/upper-case-peer/rotate=%s' % rotate, 'ob_log',
                      {'events': patterns['updates'], 'after': ['update', 'keepalive'], 'mode': 'restart', 'rotate': rotate,
                       'peer': '2001:DB8::1'}, covers=['restarted'], cap=280 if quick else 800))
        out.append(ob('C20/restart/big-record/rotate=%s' % rotate, 'ob_log',
                      {'events': ['update', 'big_update', 'update', 'big_update'], 'after': ['update', 'keepalive'],
                       'mode': 'restart', 'rotate': rotate}, covers=['restarted'], cap=280 if quick else 800))
    # several files created within the same second (rotation on every record), first KEEPALIVE of a session
    for rotate in (False, True):
        out.append(ob('C20/restart/updates/files-in-same-second/rotate=%s' % rotate, 'ob_log',
                      {'events': patterns['updates'] + ['update', 'update'], 'after': ['update', 'keepalive'], 'mode': 'restart',
                       'rotate': rotate, 'tick': 0.25}, covers=['restarted'], cap=280 if quick else 800))
        out.append(ob('C20/restart/first-keepalive/rotate=%s' % rotate, 'ob_log',
                      {'events': ['send_open', 'open', 'keepalive_first', 'keepalive', 'update'],
                       'after': ['keepalive_first', 'keepalive'], 'mode': 'restart', 'rotate': rotate}, covers=['restarted'],
                      cap=280 if quick else 800))
    for rotate in (False, True):
        out.append(ob('C20/restart/non-utf8-text/rotate=%s' % rotate, 'ob_log',
                      {'events': ['update', 'conn_failed_nonutf8', 'update', 'conn_failed_nonutf8'], 'after': ['update', 'keepalive'],
                       'mode': 'restart', 'rotate': rotate}, covers=['restarted'], cap=280 if quick else 800))
    for pname, evs in patterns.items():
        for aname, aft in afters.items():
            if quick and aname == 'one' and pname != 'updates':
                continue
            for rotate in (False, True):
                out.append(ob('C20/restart/%s/after=%s/rotate=%s' % (pname, aname, rotate), 'ob_log',
                              {'events': evs, 'after': aft, 'mode': 'restart', 'rotate': rotate}, covers=['restarted'],
                              cap=280 if quick else 800))
                if quick and rotate and pname not in ('updates',):
                    continue
                for nn in range(len(evs)):
                    if quick and nn not in (0, len(evs) - 1):
                        continue
                    out.append(ob('C20/crash/%s/after=%s/rotate=%s/n=%d' % (pname, aname, rotate, nn), 'ob_log',
                                  {'events': evs, 'after': aft, 'mode': 'crash', 'rotate': rotate, 'n': nn,
                                   'offsets': 'boundary' if quick else 'dense'},
                                  covers=['crashed'], cap=280 if quick else 800))
    return out
