"""C01 - the session FSM follows the RFC 4271 profile: one-step conformance from
every (state, event class) with symbolic message fields / timer values, checked
against the relation in vf/ref/rfc4271_fsm.py, plus bounded event sequences from
boot (symbolic event choice)."""
from vf.props.common import assume, cover, ob
from vf.props import sess_common as SC
from vf.ref import rfc4271_fsm as REF
from vf import session as S

CLAIMED = True
P = {}
LEVEL_TEXT = ('Bounded symbolic verification, inductive in the history: the real BGPPeering/FSM/BGP/BGPTimer objects are placed in '
              'each session state satisfying the reachable-state invariant, one real event (dataReceived with reference-encoded '
              'bytes whose fields are symbolic, connectionMade, clientConnectionFailed, timer callback, manual stop/start) is run, '
              'and state / messages written (NOTIFICATION code+subcode parsed from the bytes) / close / connect decisions are '
              'compared with an independent RFC 4271 section 8 relation. Plus symbolic event sequences from boot (depth 3/4).')
LEVEL_NOTE = ('Twisted modelled by vf/env/twisted_stub.py (trusted, hand-checked). Single-connection regime. One step from an '
              'invariant state covers histories of any length only as far as the invariant (vf/session.in_state) describes the '
              'reachable states; the from-boot sequences cross-check it to depth 3 (quick) / 4 (thorough).')
LEVEL_ADDED = "Also: invariant states with an earlier connection in the history (finished or still closing) and with the hold time an earlier session negotiated still in the FSM; the TCP-up row checks the OPEN's version / AS / hold-time fields; the OpenSent/BGPOpen row checks hold timer = negotiated value and 0 < keepalive interval < hold; event classes for type-specific bad lengths (badlen) and out-of-range UPDATE length fields (upd_trunc). The TCP-up row also requires the connect-retry timer stopped and the hold timer armed; in histories from boot the agent's own connect-retry timer may not expire during a session; composite event: a NOTIFICATION followed by more messages in the same TCP segment. Timer rows: KEEPALIVE / UPDATE in Established restart the hold timer (the step runs one second after the timers were armed), nothing is left armed after a manual stop. A session that ends with nothing left to close arms the IdleHoldTimer; the OpenConfirm KEEPALIVE restarts the hold timer."
TECHNIQUE = 'symbolic one-step FSM conformance from invariant states + bounded symbolic event sequences from boot (CrossHair+z3) against an RFC 4271 relation'
EXPLANATION = 'C01: (state, event class) obligations with symbolic fields against vf/ref/rfc4271_fsm.py; symbolic event sequences from boot.'
BOUNDS = ('6 states x ~25 event classes; OPEN version 0..255, AS 0..65535 / 4-octet, hold 0..65535, id; NOTIFICATION code/subcode 0..255; '
          'length field 0..65535; type octet 0..255; negotiated hold 0 or 3..65535; sequences from boot of depth <= 4')
ASSUMPTIONS = ['Twisted contract as modelled in vf/env/twisted_stub.py', 'DelayOpen off (yabgp never enables it)',
               'single-connection regime (see C12 for races between attempts)']
BUDGET = {'quick': 300, 'thorough': 1200}


def ob_step(a: int, b: int, c: int, hold: int) -> bool:
    state, ev = P['state'], P['ev']
    cfgd = dict(P.get('cfg', {}))
    if state in (S.OPENCONFIRM, S.ESTABLISHED):
        assume(hold == 0 or 3 <= hold < 65536)
        if ev == 'kat':
            assume(hold > 0)
        if ev == 'holdt':
            assume(hold > 0)
    elif P.get('stale'):
        # Idle / Connect after an earlier session: what that session negotiated (0 or 3..configured) is still around
        assume(hold == 0 or 3 <= hold <= S.DEFAULT_CFG['hold_time'])
    else:
        hold = None
    w = S.in_state(state, cfgd, hold=hold, closing=P.get('closing', False), old_closed=P.get('old_closed', False),
                   stale_hold=hold if P.get('stale') else None)
    if state in (S.OPENCONFIRM, S.ESTABLISHED) and hold:
        w.reactor.now = 1          # a second has passed since the timers were armed: "restarted" differs from "untouched"
    mark = w.mark()
    SC.inject(w, ev, a, b, c)
    obs = SC.observe(w, mark)
    oev, sub = SC.oracle_event(ev)
    cover('stepped')
    ctx = {'sub': sub, 'hold': hold}
    if ev == 'open_ok' and state == S.OPENSENT and w.state == S.OPENCONFIRM:
        # RFC 4271 8.2.2 OpenSent/BGPOpen: "sets the HoldTimer according to the negotiated value", sets a KeepaliveTimer;
        # the negotiated value is the smaller of the configured and the proposed one, zero switches both off.  The
        # keepalive interval is the implementation's choice but must be able to keep the session alive (< hold time).
        conf = w.cfg['hold_time']
        neg = a if a < conf else conf
        now = w.reactor.now
        if neg == 0:
            if w.timer_active('hold') or w.timer_active('keepalive'):
                return False
        else:
            if not (w.timer_active('hold') and w.timer_active('keepalive')):
                return False
            if w.timer_deadline('hold') - now != neg:
                return False
            ka = w.timer_deadline('keepalive') - now
            if not (0 < ka and ka < neg):
                return False
    las = w.cfg['local_as']
    ctx['open'] = (4, las if las < 65536 else 23456, w.cfg['hold_time'])
    if ev == 'badlen' and cfgd.get('badlen', (4, 20))[0] == 4:
        ctx['reports_ok'] = ('keepalive_received',)
    return REF.check(state, oev, ctx, obs)


# ---- bounded sequences from boot ---------------------------------------------------------------
SEQ_EVENTS = ['tcp_ok', 'tcp_fail', 'open_ok', 'ka', 'upd', 'notif', 'hdr_type', 'peer_close', 'timer', 'close_done',
              'manual_stop', 'manual_start', 'open_hold12', 'open_badver', 'rr', 'upd_bad', 'hdr_len', 'notif_ver']


def ob_seq(e1: int, e2: int, e3: int, e4: int) -> bool:
    """boot; automatic start; then k events chosen by symbolic indices; after every step the
    reaction must be allowed by the RFC relation for the (state, event) at hand."""
    def step_check(w, info):
        state, real_ev = info['state'], info['ev']
        if state == S.IDLE and real_ev == 'start_idlehold' and not w.fsm.allow_automatic_start:
            return True     # a stopped peer: owned by C13, not a C01 row
        if state == S.IDLE and real_ev in ('crt', 'holdt', 'kat'):
            # stale timers in Idle: the RFC ignores them
            return REF.check(state, 'stale_timer', {}, info['obs'])
        if real_ev == 'crt' and state in (S.OPENSENT, S.OPENCONFIRM, S.ESTABLISHED):
            # the agent's own ConnectRetryTimer expired during a session: RFC 4271 stops it when the TCP connection
            # comes up, so in a history from boot this event cannot happen
            return False
        oev, sub = SC.oracle_event(real_ev)
        return REF.check(state, oev, {'sub': sub, 'hold': info['hold']}, info['obs'])
    return SC.run_seq(P, [e1, e2, e3, e4], step_check)


def obligations(tier, seed):
    quick = tier == 'quick'
    out = []
    for state, evs in SC.EVENTS_BY_STATE.items():
        for ev in evs:
            prm = {'state': state, 'ev': ev}
            out.append(ob('C01/step/%s/%s' % (S.STATE_NAMES[state], ev), 'ob_step', prm, covers=['stepped'], cap=120))
            if ev in ('open_ok', 'open_badas') and state == S.OPENSENT:
                # peer without the 4-octet-AS capability; remote AS > 65535 (AS_TRANS in the 2-octet field)
                out.append(ob('C01/step/%s/%s/no-as4' % (S.STATE_NAMES[state], ev), 'ob_step',
                              {'state': state, 'ev': ev, 'cfg': {'peer_as4': False}}, covers=['stepped']))
                out.append(ob('C01/step/%s/%s/as4-big' % (S.STATE_NAMES[state], ev), 'ob_step',
                              {'state': state, 'ev': ev, 'cfg': {'remote_as': 4200000001}}, covers=['stepped']))
            if ev == 'open_ok' and state == S.OPENSENT:
                for sr in (3, 0):
                    out.append(ob('C01/step/%s/%s/addpath-any-family/sr=%d' % (S.STATE_NAMES[state], ev, sr), 'ob_step',
                                  {'state': state, 'ev': ev, 'cfg': {'extra_caps': 'addpath-sym', 'addpath_sr': sr}},
                                  covers=['stepped'], cap=200))
            if ev == 'badlen':
                for (t, ln) in SC.BADLEN[1:]:
                    if quick and state != S.ESTABLISHED and (t, ln) not in ((2, 19), (3, 20)):
                        continue
                    out.append(ob('C01/step/%s/%s/type=%d/len=%d' % (S.STATE_NAMES[state], ev, t, ln), 'ob_step',
                                  {'state': state, 'ev': ev, 'cfg': {'badlen': (t, ln)}}, covers=['stepped']))
            if ev == 'hdr_marker' and not quick:
                for pos in (0, 7):
                    out.append(ob('C01/step/%s/%s/pos=%d' % (S.STATE_NAMES[state], ev, pos), 'ob_step',
                                  {'state': state, 'ev': ev, 'cfg': {'marker_pos': pos}}, covers=['stepped']))
            if ev == 'hdr_len' and not quick:
                for t in (1, 2, 3, 5):
                    out.append(ob('C01/step/%s/%s/type=%d' % (S.STATE_NAMES[state], ev, t), 'ob_step',
                                  {'state': state, 'ev': ev, 'cfg': {'hdr_len_type': t}}, covers=['stepped']))
    out.append(ob('C01/step/IDLE/close_done', 'ob_step', {'state': S.IDLE, 'ev': 'close_done', 'closing': True},
                  covers=['stepped']))
    # every state again with an earlier, finished connection in the history (the FSM keeps its protocol object)
    for state, evs in SC.EVENTS_BY_STATE.items():
        for ev in evs:
            if quick and state not in (S.IDLE, S.CONNECT) and ev not in ('manual_stop', 'holdt', 'notif', 'peer_close', 'crt'):
                continue
            out.append(ob('C01/step-after-earlier-connection/%s/%s' % (S.STATE_NAMES[state], ev), 'ob_step',
                          {'state': state, 'ev': ev, 'old_closed': True, 'stale': state in (S.IDLE, S.CONNECT)},
                          covers=['stepped'], cap=120))
    # sequences from boot: split by first event so the 16 workers share the tree
    core = ['tcp_ok', 'tcp_fail', 'open_ok', 'ka', 'upd', 'notif', 'hdr_type', 'peer_close', 'timer', 'close_done',
            'manual_stop', 'manual_start']
    if quick:
        plans = [(SEQ_EVENTS, 2), (core, 3)]
    else:
        plans = [(SEQ_EVENTS, 3), (core, 4)]
    # a session that negotiates hold time 0 (peer proposes 0): no timer may end it (RFC 4271 4.2 / 8.2.2)
    k0 = 4
    a0 = ['tcp_ok', 'open_ok', 'ka', 'timer', 'upd', 'rr']
    out.append(ob('C01/seq/hold0/k=%d' % k0, 'ob_seq', {'alphabet': a0, 'k': k0, 'first': 0, 'second': 1,
                                                        'vals': {'open_ok': [0, 0x0A000002, 0]}},
                  cap=280 if quick else 1100, covers=['seq']))
    for alphabet, k in plans:
        # after boot + automatic start only these first events are possible; 'tcp_ok' carries most of the tree
        for first_ev in ('tcp_ok', 'tcp_fail', 'timer', 'manual_stop', 'manual_start'):
            first = alphabet.index(first_ev)
            out.append(ob('C01/seq/k=%d/n=%d/first=%s' % (k, len(alphabet), first_ev), 'ob_seq',
                          {'alphabet': alphabet, 'k': k, 'first': first}, cap=280 if quick else 1100, covers=['seq']))
    return out
