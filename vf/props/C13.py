"""C13 - operator stop is final until operator start."""
from vf.props.common import assume, cover, ob
from vf.props import sess_common as SC
from vf import session as S

CLAIMED = True
P = {}
LEVEL_TEXT = ('Bounded symbolic verification, inductive: manual_stop from every invariant session state (incl. an attempt in flight) '
              'sends Cease iff Established, closes, leaves no timer armed and no attempt pending; from every stopped state every '
              'environment event writes nothing, starts no connection and keeps the peer stopped (closure => holds for every '
              'continuation); manual_start from stopped connects at once; from a running session it changes nothing. Plus '
              'symbolic event sequences from boot with a stopped-monitor, and the REST manual-stop / manual-start views.')
LEVEL_NOTE = 'Twisted as modelled; stopped states are those vf/session.in_state builds (Idle, nothing armed, optionally a close still pending).'
LEVEL_ADDED = "Also: stop / start from states with an earlier connection in the history (finished or still closing). Peer data arriving on the connection after the stop (bad marker, unknown type, wrong-AS OPEN, KEEPALIVE, UPDATE, NOTIFICATION). A stop before the agent's deferred first automatic start; a stop while an attempt is pending in an environment that refuses the TCP-MD5 key."
TECHNIQUE = 'symbolic one-step closure over stopped states + bounded symbolic sequences with a monitor (CrossHair+z3)'
EXPLANATION = 'C13: stop step, stopped-closure, start step, monitored sequences.'
BOUNDS = 'all states x stop; stopped states x all environment events; sequences from boot depth 4 (quick) / 5 (thorough)'
ASSUMPTIONS = ['Twisted contract as modelled']
BUDGET = {'quick': 300, 'thorough': 1200}


def all_timers_off(w):
    for name in w.timers():
        if w.timer_active(name):
            return False
    return True


def ob_stop(a: int, b: int, c: int, hold: int) -> bool:
    """manual stop from every state"""
    state = P['state']
    if state in (S.OPENCONFIRM, S.ESTABLISHED):
        assume(hold == 0 or 3 <= hold < 65536)
    else:
        hold = None
    w = S.in_state(state, dict(P.get('cfg', {})), hold=hold, closing=P.get('closing', False),
                   old_closing=P.get('old_closing', False), old_closed=P.get('old_closed', False))
    had_conn = w.fsm.protocol is not None and w.fsm.protocol.transport is not None and \
        bool(w.fsm.protocol.transport.connected) and not w.fsm.protocol.transport.disconnecting
    cur_t = w.fsm.protocol.transport if w.fsm.protocol is not None else None
    mark = w.mark()
    w.ev_manual_stop()
    obs = SC.observe(w, mark)
    cover('stopped')
    if state == S.ESTABLISHED:
        if obs['writes'] != [(3, 6, 0)]:
            return False
    elif obs['writes'] not in ([], [(3, 6, 0)]):
        return False
    if had_conn and not cur_t.disconnecting:
        return False
    if [c_ for c_ in w.reactor.connectors if c_.state == 'connecting']:
        return False
    return w.state == S.IDLE and all_timers_off(w) and w.fsm.allow_automatic_start is False and obs['connects'] == 0


def ob_closure(a: int, b: int, c: int) -> bool:
    """from a stopped state, an environment event changes nothing observable"""
    ev = P['ev']
    w = S.in_state(S.IDLE, dict(P.get('cfg', {})), allow_auto=False, closing=P.get('closing', False))
    mark = w.mark()
    if ev == 'close_done':
        w.ev_conn_lost()
    elif ev.startswith('late:'):
        # the peer's bytes that were in flight when the operator stopped: whatever they are, nothing is answered
        import struct
        kind = ev[5:]
        c_ = [x for x in w.reactor.connectors if x.state == 'connected'][-1]
        data = {'bad-marker': b'\x00' * 16 + struct.pack('!HB', 19, 4),
                'unknown-type': S.MARKER + struct.pack('!HB', 19, 99),
                'open-wrong-as': S.rfc_open(4, 64999, 90, 0x0A000002, S.cap_as4(64999)),
                'keepalive': S.KEEPALIVE, 'update': S.rfc_update_min(),
                'notification': S.rfc_notification(6, 2)}[kind]
        c_.protocol.dataReceived(data)
    elif ev.startswith('stale:'):
        # a timer callback that was already queued when stop was issued
        getattr(w.fsm, ev[6:])()
    else:
        raise AssertionError(ev)
    obs = SC.observe(w, mark)
    cover('closed')
    return obs['writes'] == [] and obs['connects'] == 0 and w.fsm.allow_automatic_start is False and \
        w.state == S.IDLE and all_timers_off(w)


def ob_start(a: int, b: int, c: int, hold: int) -> bool:
    state = P['state']
    if state in (S.OPENCONFIRM, S.ESTABLISHED):
        assume(hold == 0 or 3 <= hold < 65536)
    else:
        hold = None
    w = S.in_state(state, dict(P.get('cfg', {})), hold=hold, allow_auto=P.get('auto', True),
                   closing=P.get('closing', False), old_closing=P.get('old_closing', False),
                   old_closed=P.get('old_closed', False))
    timers_before = {n: w.timer_active(n) for n in w.timers()}
    mark = w.mark()
    w.ev_manual_start()
    obs = SC.observe(w, mark)
    cover('started')
    if state == S.IDLE:
        return w.state == S.CONNECT and obs['connects'] == 1 and obs['writes'] == [] and \
            w.fsm.allow_automatic_start is True and w.timer_active('connect_retry') and \
            len([c_ for c_ in w.reactor.connectors if c_.state == 'connecting']) == 1
    # while a session (or an attempt) is under way: nothing changes
    return w.state == state and obs['connects'] == 0 and obs['writes'] == [] and obs['close'] == 0 and \
        {n: w.timer_active(n) for n in w.timers()} == timers_before


def ob_seq(e1: int, e2: int, e3: int, e4: int, e5: int) -> bool:
    mon = {'stopped': False}

    def step_check(w, info):
        ev, obs = info['ev'], info['obs']
        if ev == 'manual_stop':
            mon['stopped'] = True
            return obs['connects'] == 0 and obs['writes'] in ([], [(3, 6, 0)]) and \
                (info['state'] != S.ESTABLISHED or obs['writes'] == [(3, 6, 0)])
        if ev == 'manual_start':
            was = mon['stopped']
            mon['stopped'] = False
            if was:
                return obs['connects'] == 1 and w.state == S.CONNECT
            return True
        if mon['stopped']:
            return obs['writes'] == [] and obs['connects'] == 0 and w.state == S.IDLE
        return True
    return SC.run_seq(P, [e1, e2, e3, e4, e5], step_check)


def ob_stop_before_first_start(x: int) -> bool:
    """the agent schedules its first automatic start a few seconds after boot (yabgp/agent: reactor.callLater(...,
    bgp_peering.automatic_start)); an operator stop in that window must hold when the deferred call runs"""
    w = S.boot(dict(P.get('cfg', {})))
    w.ev_manual_stop()
    mark = w.mark()
    w.ev_auto_start()              # the deferred call fires
    obs = SC.observe(w, mark)
    cover('stopped')
    if obs['connects'] != 0 or obs['writes'] != [] or w.state != S.IDLE or not all_timers_off(w):
        return False
    w.ev_manual_start()
    return w.state == S.CONNECT and len([c_ for c_ in w.reactor.connectors if c_.state == 'connecting']) == 1


def ob_stop_md5_refused(e1: int, e2: int) -> bool:
    """TCP-MD5 key refused by the kernel (setsockopt raises in connect()): a stop still ends every attempt"""
    evs = ['timer', 'tcp_fail', 'manual_start']
    w = S.boot({'md5': 'k' * 81, 'md5_refused': True, 'connect_retry_time': 10})
    for step in (w.ev_auto_start,):
        try:
            step()
        except OSError:
            pass
    for e in (e1, e2)[:P['k']]:
        assume(0 <= e < len(evs))
        if not SC.applicable(w, evs[e]):
            assume(False)
        try:
            if evs[e] == 'timer':
                w.ev_fire(SC.next_timer(w))
            else:
                SC.inject(w, evs[e], 0, 0, 0)
        except OSError:
            pass
    try:
        w.ev_manual_stop()
    except OSError:
        pass
    cover('stopped')
    if [c_ for c_ in w.reactor.connectors if c_.state == 'connecting']:
        return False
    return w.state == S.IDLE and all_timers_off(w) and w.fsm.allow_automatic_start is False


ALPHA = ['tcp_ok', 'tcp_fail', 'timer', 'manual_stop', 'manual_start', 'open_ok', 'ka', 'notif', 'peer_close',
         'close_done', 'upd', 'hdr_type']


def obligations(tier, seed):
    quick = tier == 'quick'
    out = []
    for state in (S.IDLE, S.CONNECT, S.OPENSENT, S.OPENCONFIRM, S.ESTABLISHED):
        out.append(ob('C13/stop/%s' % S.STATE_NAMES[state], 'ob_stop', {'state': state}, covers=['stopped']))
        out.append(ob('C13/start/%s' % S.STATE_NAMES[state], 'ob_start', {'state': state}, covers=['started']))
    # the same with an earlier connection in the history (the FSM still points at its protocol object): still
    # closing, or completely over
    for state in (S.IDLE, S.CONNECT, S.OPENSENT, S.ESTABLISHED):
        for hist in ('old_closing', 'old_closed'):
            if state == S.IDLE and hist == 'old_closing':
                continue
            out.append(ob('C13/stop/%s/%s' % (S.STATE_NAMES[state], hist), 'ob_stop', {'state': state, hist: True},
                          covers=['stopped']))
            out.append(ob('C13/start/%s/%s' % (S.STATE_NAMES[state], hist), 'ob_start', {'state': state, hist: True},
                          covers=['started']))
    out.append(ob('C13/stop/IDLE-closing', 'ob_stop', {'state': S.IDLE, 'closing': True}, covers=['stopped']))
    out.append(ob('C13/start/IDLE-stopped', 'ob_start', {'state': S.IDLE, 'auto': False}, covers=['started']))
    out.append(ob('C13/start/IDLE-stopped-closing', 'ob_start', {'state': S.IDLE, 'auto': False, 'closing': True},
                  covers=['started']))
    out.append(ob('C13/stop/before-first-automatic-start', 'ob_stop_before_first_start', {}, covers=['stopped']))
    for k in (0, 1, 2):
        out.append(ob('C13/stop/md5-key-refused/k=%d' % k, 'ob_stop_md5_refused', {'k': k}, covers=['stopped']))
    out.append(ob('C13/closure/close_done', 'ob_closure', {'ev': 'close_done', 'closing': True}, covers=['closed']))
    for kind in ('bad-marker', 'unknown-type', 'open-wrong-as', 'keepalive', 'update', 'notification'):
        out.append(ob('C13/closure/late-data/%s' % kind, 'ob_closure', {'ev': 'late:' + kind, 'closing': True}, covers=['closed']))
    for cb in ('connect_retry_time_event', 'hold_time_event', 'keep_alive_time_event', 'idle_hold_time_event',
               'delay_open_time_event'):
        for closing in (False, True):
            out.append(ob('C13/closure/stale:%s/closing=%s' % (cb, closing), 'ob_closure',
                          {'ev': 'stale:' + cb, 'closing': closing}, covers=['closed']))
    k = 4 if quick else 5
    for first_ev in ('tcp_ok', 'tcp_fail', 'timer', 'manual_stop', 'manual_start'):
        out.append(ob('C13/seq/k=%d/first=%s' % (k, first_ev), 'ob_seq',
                      {'alphabet': ALPHA, 'k': k, 'first': ALPHA.index(first_ev)}, covers=['seq'],
                      cap=280 if quick else 1100))
    return out
