"""C17 - decoded community text is accepted back by the REST API and re-encodes the same."""
from vf.props.common import assume, cover, ob, same
from vf.ref import rfc_encode as E
from vf.ref.iana import WELL_KNOWN_COMMUNITIES
from vf import session as S
from vf.env import rest
from vf.props.C16 import split_attrs

CLAIMED = True
P = {}
LEVEL_TEXT = ('Bounded symbolic verification of the full loop, per community kind: symbolic field values -> octets by an independent '
              'RFC encoder -> real Update.parse -> text -> real REST view json_to_bin (session Established, valid credentials, '
              'peer advertised 4-octet AS) -> octets\' -> real Update.parse -> text\'; required: accepted, octets\' = octets, '
              'text\' = text.  Kinds: the 14 extended-community kinds the decoder renders (route-target / route-origin in their '
              'three formats, color, encapsulation, redirect-vrf, redirect-nexthop, traffic-rate, traffic-action, traffic-marking, '
              'dmzlink-bw, esi-label, mac-mobility, es-import, router-mac), communities (numeric and every well-known name), large '
              'communities.')
LEVEL_NOTE = 'MAC addresses and the traffic-rate float are concretised; JSON / header parsing stubbed (vf/env/rest.py). No digit-class split is needed: decimal text is handled lazily (ropes).'
LEVEL_ADDED = 'Also: two communities of the same kind with different field values in one attribute. Loops that start from each registered well-known *name*. The send/update view as well as json_to_bin.'
TECHNIQUE = 'symbolic execution of Update.parse and the json_to_bin view in a loop (CrossHair+z3), independent RFC encoder as reference for the octets'
EXPLANATION = 'C17: encode (reference) -> decode -> REST text -> encode (yabgp) -> decode loop per community kind.'
BOUNDS = 'one or two communities per attribute; all numeric fields symbolic over their wire width; MAC / float values from pools'
ASSUMPTIONS = ['REST glue of vf/env/rest.py', 'peer advertised the 4-octet-AS capability (needed by the view for 4-octet route targets)']
BUDGET = {'quick': 300, 'thorough': 900}


def mac_bytes(mac):
    return [int(x, 16) for x in mac.split('-')]


def item_for(kind, a, b, c):
    """8 octets of one extended community (independent encoding) from symbolic fields"""
    u16, u32 = E.u16, E.u32
    if kind in ('rt0', 'ro0', 'redirect-vrf', 'dmzlink-bw'):
        code = {'rt0': [0, 2], 'ro0': [0, 3], 'redirect-vrf': [0x80, 8], 'dmzlink-bw': [0x40, 4]}[kind]
        assume(0 <= a < 65536 and 0 <= b < 2 ** 32)
        return code + list(u16(a)) + list(u32(b))
    if kind in ('rt2', 'ro2'):
        assume(65536 <= a < 2 ** 32 and 0 <= b < 65536)
        return [2, 2 if kind == 'rt2' else 3] + list(u32(a)) + list(u16(b))
    if kind in ('rt2-small', 'ro2-small'):
        # 4-octet-AS format carrying an AS number that also fits in 2 octets
        assume(0 <= a < 65536 and 0 <= b < 65536)
        return [2, 2 if kind == 'rt2-small' else 3] + list(u32(a)) + list(u16(b))
    if kind in ('rt1', 'ro1'):
        assume(0 <= a < 2 ** 32 and 0 <= b < 65536)
        return [1, 2 if kind == 'rt1' else 3] + list(u32(a)) + list(u16(b))
    if kind == 'redirect-nexthop':
        assume(0 <= a < 2 ** 32 and 0 <= b < 65536)
        return [8, 0] + list(u32(a)) + list(u16(b))
    if kind == 'color':
        assume(0 <= a < 2 ** 32)
        return [3, 0x0b, 0, 0] + list(u32(a))
    if kind == 'encapsulation':
        assume(0 <= a < 2 ** 32)
        return [3, 0x0c, 0, 0] + list(u32(a))
    if kind == 'traffic-marking':
        assume(0 <= a < 256)
        return [0x80, 9, 0, 0, 0, 0, 0, a]
    if kind == 'traffic-action':
        assume(0 <= a <= 1 and 0 <= b <= 1)
        return [0x80, 7, 0, 0, 0, 0, 0, a * 2 + b]
    if kind == 'mac-mobility':
        assume(0 <= a < 256 and 0 <= b < 2 ** 32)
        return [6, 0, a, 0] + list(u32(b))
    if kind == 'esi-label':
        assume(0 <= a < 256 and 0 <= b < 2 ** 20)
        lab = b * 16 + 1
        return [6, 1, a, 0, 0, lab // 65536, (lab // 256) % 256, lab % 256]
    if kind == 'traffic-rate':
        import struct
        assume(0 <= a < 65536)
        return [0x80, 6] + list(u16(a)) + list(struct.pack('!f', float(P.get('rate', 0))))
    if kind in ('es-import', 'router-mac'):
        return [6, 2 if kind == 'es-import' else 3] + mac_bytes(P.get('mac', '00-11-22-33-44-55'))
    raise AssertionError(kind)


def world():
    w = S.in_state(S.ESTABLISHED, hold=90)
    w.CONF.bgp.running_config['capability']['remote'] = {'four_bytes_as': True, 'route_refresh': True, 'afi_safi': [(1, 1)]}
    rec = {}
    p = w.fsm.protocol
    real = p.construct_update_to_bin

    def recording(msg):
        raw = real(msg)
        rec['raw'] = raw
        return raw
    p.construct_update_to_bin = recording
    return w, rec


BASE = {'1': 0, '2': [], '3': '10.0.0.1'}


def tlv_value(tlv):
    """value octets of one attribute TLV (the flag octet is not compared: C08 owns the flags)"""
    if (tlv[0] // 16) % 2:
        return tlv[4:]
    return tlv[3:]


def loop(code, attr_bytes, expect_bytes=None):
    """reference octets -> text -> REST -> octets' -> text'"""
    from yabgp.message.update import Update
    out = Update.parse(None, E.update_body(b'', attr_bytes, b''), True, {})
    if out['sub_error'] is not None or code not in (out['attr'] or {}):
        return False
    text = out['attr'][code]
    cover('decoded')
    w, rec = world()
    attr = dict(BASE)
    attr[str(code)] = text
    mark = w.mark()
    if P.get('view') == 'send':
        # the same text through the view that actually sends: the octets on the wire are judged
        r = rest.call('v1.send_update_message', '/v1/peer/10.0.0.2/send/update', 'POST', creds=('admin', 'admin'),
                      view_args={'peer_ip': '10.0.0.2'}, body={'attr': attr, 'nlri': ['10.0.0.0/8']})
        wire = w.wire(mark['wire'])
        if r.status != 200 or not isinstance(r.obj, dict) or r.obj.get('status') is not True or len(wire) != 1:
            return False
        raw = wire[0][2]
        rec['raw'] = raw
    else:
        r = rest.call('v1.json_to_bin', '/v1/peer/10.0.0.2/json_to_bin', 'POST', creds=('admin', 'admin'),
                      view_args={'peer_ip': '10.0.0.2'}, body={'attr': attr, 'nlri': ['10.0.0.0/8']})
        if r.status != 200 or not isinstance(r.obj, dict) or 'bin' not in r.obj or 'raw' not in rec:
            return False
        if len(w.wire(mark['wire'])) != 0:
            return False              # json_to_bin must not send anything
    raw = rec['raw']
    if not isinstance(raw, (bytes, bytearray)) and not hasattr(raw, '__ch_realize__'):
        return False              # "construct failed"
    cover('accepted')
    n = len(raw)
    if raw[16] * 256 + raw[17] != n or raw[18] != 2:
        return False
    body = raw[19:]
    al = body[2] * 256 + body[3]
    attrs = split_attrs(body[4:4 + al])
    if attrs is None or code not in attrs:
        return False
    if tlv_value(attrs[code]) != tlv_value(expect_bytes if expect_bytes is not None else attr_bytes):
        return False
    out2 = Update.parse(None, body, True, {})
    return out2['sub_error'] is None and same(out2['attr'][code], text)


def ob_ext(a: int, b: int, c: int) -> bool:
    items = [item_for(P['kind'], a, b, c)]
    for k in P.get('more', []):
        items.append(item_for(k, c, a % 65536 if k in ('rt0',) else a, b))
    expect = None
    if P.get('canonical'):
        # the text does not say which wire format it came from: the octets required are the RFC 5668 canonical
        # ones (2-octet-AS format when the AS number fits)
        expect = E.ext_communities([item_for(P['canonical'], a, b, c)])
    return loop(16, E.ext_communities(items), expect)


def ob_comm(a: int, b: int, c: int, d: int) -> bool:
    assume(0 <= a < 65536 and 0 <= b < 65536)
    pairs = [(a, b)]
    if P.get('n', 1) == 2:
        assume(0 <= c < 65535 and 0 <= d < 65536)      # (second one not in the well-known range: keeps the fork count down)
        pairs.append((c, d))
    for v in P.get('fixed', []):
        pairs.append((v // 65536, v % 65536))
    return loop(8, E.communities(pairs))


NAMES = ['PLANNED_SHUT', 'ACCEPT_OWN', 'ROUTE_FILTER_TRANSLATED_v4', 'ROUTE_FILTER_v4', 'ROUTE_FILTER_TRANSLATED_v6',
         'ROUTE_FILTER_v6', 'BLACKHOLE', 'NO_EXPORT', 'NO_ADVERTISE', 'NO_EXPORT_SUBCONFED', 'NOPEER']


def ob_comm_name(a: int, b: int) -> bool:
    """starting from the *name* (IANA registry, not from what the decoder happened to render): posting it is accepted, the
    octets are the registered value, and decoding them renders the same name again"""
    from yabgp.message.update import Update
    name = P['name']
    value = WELL_KNOWN_COMMUNITIES[name.upper()]
    assume(0 <= a < 65535 and 0 <= b < 65536)
    w, rec = world()
    attr = dict(BASE)
    attr['8'] = [name, '%s:%s' % (a, b)]
    r = rest.call('v1.json_to_bin', '/v1/peer/10.0.0.2/json_to_bin', 'POST', creds=('admin', 'admin'),
                  view_args={'peer_ip': '10.0.0.2'}, body={'attr': attr, 'nlri': ['10.0.0.0/8']})
    if r.status != 200 or 'raw' not in rec:
        return False
    cover('accepted')
    raw = rec['raw']
    body = raw[19:]
    al = body[2] * 256 + body[3]
    attrs = split_attrs(body[4:4 + al])
    if attrs is None or 8 not in attrs:
        return False
    if tlv_value(attrs[8]) != tlv_value(E.communities([(value // 65536, value % 65536), (a, b)])):
        return False
    out = Update.parse(None, body, True, {})
    cover('decoded')
    return out['sub_error'] is None and same(out['attr'][8], [name, '%s:%s' % (a, b)])


def ob_largecomm(a: int, b: int, c: int) -> bool:
    assume(0 <= a < 2 ** 32 and 0 <= b < 2 ** 32 and 0 <= c < 2 ** 32)
    triples = [(a, b, c)] + [tuple(t) for t in P.get('more', [])]
    return loop(32, E.large_communities(triples))


def obligations(tier, seed):
    quick = tier == 'quick'
    out = []
    kinds = ['rt0', 'rt1', 'rt2', 'rt2-small', 'ro0', 'ro1', 'ro2', 'ro2-small', 'redirect-vrf', 'dmzlink-bw',
             'redirect-nexthop', 'color', 'encapsulation', 'traffic-marking', 'traffic-action', 'mac-mobility', 'esi-label',
             'es-import', 'router-mac']
    for k in kinds:
        prm = {'kind': k}
        if k.endswith('-small'):
            prm['canonical'] = k[:2] + '0'
        out.append(ob('C17/ext/%s' % k, 'ob_ext', prm, covers=['decoded', 'accepted'], cap=200))
        out.append(ob('C17/ext/%s/view=send' % k, 'ob_ext', dict(prm, view='send'), covers=['decoded', 'accepted'], cap=200))
    for rate in ([0, 1000] if quick else [0, 1, 1000, 16777216, 3000000000]):
        out.append(ob('C17/ext/traffic-rate/rate=%d' % rate, 'ob_ext', {'kind': 'traffic-rate', 'rate': rate},
                      covers=['decoded', 'accepted']))
    for mac in ('FF-FF-FF-FF-FF-FF', '00-00-00-00-00-01', '0A-0B-0C-0D-0E-0F'):
        for k in ('es-import', 'router-mac'):
            out.append(ob('C17/ext/%s/mac=%s' % (k, mac), 'ob_ext', {'kind': k, 'mac': mac}, covers=['decoded', 'accepted']))
    for k, more in (('rt0', ['color']), ('color', ['rt0']), ('ro1', ['esi-label']),
                    # two of the same kind with different field values in one attribute
                    ('traffic-action', ['traffic-action']), ('rt0', ['rt0']), ('traffic-marking', ['traffic-marking']),
                    ('mac-mobility', ['mac-mobility'])):
        out.append(ob('C17/ext/%s+%s' % (k, more[0]), 'ob_ext', {'kind': k, 'more': more}, covers=['decoded', 'accepted'], cap=250))
    out.append(ob('C17/community/n=1', 'ob_comm', {'n': 1}, covers=['decoded', 'accepted'], cap=250))
    out.append(ob('C17/community/n=2', 'ob_comm', {'n': 2}, covers=['decoded', 'accepted'], cap=250))
    out.append(ob('C17/community/n=1/view=send', 'ob_comm', {'n': 1, 'view': 'send'}, covers=['decoded', 'accepted'], cap=250))
    out.append(ob('C17/largecomm/n=1/view=send', 'ob_largecomm', {'view': 'send'}, covers=['decoded', 'accepted'], cap=250))
    for name, v in sorted(WELL_KNOWN_COMMUNITIES.items()):
        out.append(ob('C17/community/well-known=%s' % name, 'ob_comm', {'n': 1, 'fixed': [v]}, covers=['decoded', 'accepted']))
    for nm in NAMES:
        out.append(ob('C17/community/from-name=%s' % nm, 'ob_comm_name', {'name': nm}, covers=['decoded', 'accepted']))
    out.append(ob('C17/largecomm/n=1', 'ob_largecomm', {}, covers=['decoded', 'accepted'], cap=250))
    out.append(ob('C17/largecomm/n=2', 'ob_largecomm', {'more': [[4294967295, 0, 2147483648]]}, covers=['decoded', 'accepted'], cap=250))
    return out
