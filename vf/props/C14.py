"""C14 - OPEN, NOTIFICATION, KEEPALIVE and ROUTE-REFRESH encode and decode faithfully."""
import itertools
import struct

from vf.props.common import assume, cover, ob, same
from vf import session as S
from vf.props.C05 import read_open

CLAIMED = True
P = {}
LEVEL_TEXT = ('Bounded symbolic verification: (1) construct -> parse round trip of OPEN (symbolic AS 1..2^32-1, hold, identifier; '
              'every capability subset the encoder knows, including none), NOTIFICATION (symbolic code, subcode, data octets), '
              'KEEPALIVE and ROUTE-REFRESH (symbolic AFI/RES/SAFI, both type codes); (2) an independent RFC 4271/5492 OPEN encoder '
              'with every packaging variant (one parameter per capability, all in one, mixed), orderings, add-path for every known '
              'address family and symbolic unknown ones, extended next hop, graceful restart, LLGR and symbolic unknown capability '
              'codes is decoded by the real Open.parse and must yield exactly the encoded values; the encoder output is also read '
              'back by an independent OPEN reader.')
LEVEL_NOTE = 'Capability values of the variable-length kinds are short (<= 2 entries). Identifier text via the netaddr model (replayed with the real one).'
LEVEL_ADDED = 'Also: several ADD-PATH capabilities in one OPEN and several tuples in one capability (independent encoder). Capability dictionaries as the configuration builds them (every key present, False where off); a repeated ADD-PATH tuple. Extended-next-hop and two-family capability sets with a 4-octet AS at the quick tier.'
TECHNIQUE = 'symbolic execution of the OPEN/NOTIFICATION/KEEPALIVE/ROUTE-REFRESH codecs (CrossHair+z3): round trip + differential against an independent RFC encoder/reader'
EXPLANATION = 'C14: codec round trips and independent-encoder differential for the four non-UPDATE messages.'
BOUNDS = 'AS 1..2^32-1, hold 0..65535, id 0..2^32-1 symbolic; 24 capability subsets; <= 4 capabilities per OPEN in the independent half, all orders of <= 3; NOTIFICATION data <= 4 octets'
ASSUMPTIONS = ['netaddr model for the identifier text']
BUDGET = {'quick': 300, 'thorough': 1200}


def ident_text(i):
    return '%s.%s.%s.%s' % (i // 16777216, (i // 65536) % 256, (i // 256) % 256, i % 256)


def expected_caps(caps, asn):
    """what the decoder must report for what Open.construct was asked to advertise"""
    exp = {}
    if 'afi_safi' in caps:
        exp['afi_safi'] = [tuple(x) for x in caps['afi_safi']]
    if caps.get('cisco_route_refresh'):
        exp['cisco_route_refresh'] = True
    if caps.get('route_refresh'):
        exp['route_refresh'] = True
    if asn > 65535 or caps.get('four_bytes_as'):
        exp['four_bytes_as'] = True
    if 'ext_nexthop' in caps:
        exp['ext_nexthop'] = [{'afi_safi': list(e['afi_safi']), 'nexthop_afi': e['nexthop_afi']} for e in caps['ext_nexthop']]
    if caps.get('add_path'):
        exp['add_path'] = [{'afi_safi': 'ipv4', 'send/receive': caps['add_path'].split('_')[1]}]
    if caps.get('enhanced_route_refresh'):
        exp['enhanced_route_refresh'] = True
    return exp


def ob_open_rt(asn: int, hold: int, ident: int) -> bool:
    from yabgp.message.open import Open
    assume(1 <= asn < 2 ** 32 and 0 <= hold < 65536 and 0 <= ident < 2 ** 32)
    if P.get('as_class') == 'small':
        assume(asn < 65536)
    elif P.get('as_class') == 'big':
        assume(asn >= 65536)
    caps = dict(P['caps'])
    raw = Open(version=4, asn=asn, hold_time=hold, bgp_id=ident).construct(dict(caps))
    # structural sanity by an independent reader
    rd = read_open(raw)
    if rd is None or rd[0] != 4 or rd[2] != hold or rd[3] != ident:
        return False
    out = Open().parse(raw[19:])
    cover('parsed')
    if not isinstance(out, dict):
        return False
    return out['version'] == 4 and out['asn'] == asn and out['hold_time'] == hold and \
        out['bgp_id'] == ident_text(ident) and same(out['capabilities'], expected_caps(caps, asn))


def ob_notification_rt(code: int, sub: int, d0: int, d1: int, d2: int, d3: int) -> bool:
    from yabgp.message.notification import Notification
    n = P['n']
    assume(0 <= code < 256 and 0 <= sub < 256)
    ds = [d0, d1, d2, d3][:n]
    for d in ds:
        assume(0 <= d < 256)
    data = bytes(ds)
    raw = Notification().construct(code, sub, data)
    if len(raw) != 21 + n or raw[:16] != b'\xff' * 16 or raw[16] * 256 + raw[17] != len(raw) or raw[18] != 3:
        return False
    out = Notification().parse(raw[19:])
    cover('parsed')
    return out[0] == code and out[1] == sub and out[2] == data


def ob_keepalive_rt(x: int) -> bool:
    from yabgp.message.keepalive import KeepAlive
    raw = KeepAlive().construct()
    if raw != b'\xff' * 16 + bytes([0, 19, 4]):
        return False
    KeepAlive().parse(raw[19:])
    cover('parsed')
    return True


def ob_rr_rt(afi: int, res: int, safi: int) -> bool:
    from yabgp.message.route_refresh import RouteRefresh
    assume(0 <= afi < 65536 and 0 <= res < 256 and 0 <= safi < 256)
    t = P['type']
    raw = RouteRefresh(afi, safi, res).construct(t)
    if len(raw) != 23 or raw[:16] != b'\xff' * 16 or raw[16] * 256 + raw[17] != 23 or raw[18] != t:
        return False
    out = RouteRefresh().parse(raw[19:])
    cover('parsed')
    return tuple(out) == (afi, res, safi)


# ---- independent encoder: capabilities and packaging ------------------------------------------------
def enc_cap(name, a, b, c):
    """(capability code, value bytes, expected decoder entry (key, value, kind))"""
    if name == 'mp':
        afi, safi = P.get('mp', (1, 1))
        return 1, struct.pack('!HBB', afi, 0, safi), ('afi_safi', (afi, safi), 'append')
    if name == 'mp-sym':
        assume(0 <= a < 65536 and 0 <= b < 256)
        return 1, struct.pack('!HBB', a, 0, b), ('afi_safi', (a, b), 'append')
    if name == 'rr':
        return 2, b'', ('route_refresh', True, 'set')
    if name == 'rr-old':
        return 128, b'', ('cisco_route_refresh', True, 'set')
    if name == 'err':
        return 70, b'', ('enhanced_route_refresh', True, 'set')
    if name == 'gr':
        assume(0 <= c < 65536)
        return 64, struct.pack('!H', c), ('graceful_restart', True, 'set')
    if name == 'multisession':
        return 131, b'', ('cisco_multi_session', True, 'set')
    if name == 'as4':
        return 65, None, ('four_bytes_as', True, 'set')
    if name == 'addpath':
        afi, safi = P.get('ap', (1, 1))
        assume(1 <= c <= 3)
        fam = AFI_SAFI_NAMES[(afi, safi)]
        return 69, struct.pack('!HBB', afi, safi, c), ('add_path', {'afi_safi': fam, 'send/receive': {1: 'receive', 2: 'send', 3: 'both'}[c]}, 'append')
    if name == 'addpath2':
        afi, safi = P.get('ap2', (2, 1))
        fam = AFI_SAFI_NAMES[(afi, safi)]
        return 69, struct.pack('!HBB', afi, safi, 1), ('add_path', {'afi_safi': fam, 'send/receive': 'receive'}, 'append')
    if name == 'addpath-two-tuples':
        assume(1 <= c <= 3)
        return 69, struct.pack('!HBB', 1, 1, c) + struct.pack('!HBB', 2, 1, 2), \
            ('add_path', [{'afi_safi': 'ipv4', 'send/receive': {1: 'receive', 2: 'send', 3: 'both'}[c]},
                          {'afi_safi': 'ipv6', 'send/receive': 'send'}], 'extend')
    if name == 'addpath-same-tuple-twice':
        # RFC 7911 does not forbid repeating a tuple
        assume(1 <= c <= 3)
        return 69, struct.pack('!HBB', 1, 1, c) + struct.pack('!HBB', 1, 1, c), \
            ('add_path', [{'afi_safi': 'ipv4', 'send/receive': {1: 'receive', 2: 'send', 3: 'both'}[c]}] * 2, 'dups')
    if name == 'extnh':
        assume(0 <= a < 65536 and 0 <= b < 65536)
        return 5, struct.pack('!HHH', a, b, 2), ('ext_nexthop', {'afi_safi': [a, b], 'nexthop_afi': 2}, 'append')
    if name == 'llgr':
        assume(0 <= a < 65536 and 0 <= b < 256 and 0 <= c < 2 ** 24)
        return 71, struct.pack('!HBB', a, b, 0) + bytes([c // 65536, (c // 256) % 256, c % 256]), \
            ('LLGR', {'afi_safi': [a, b], 'time': c}, 'append')
    if name == 'unknown':
        if P.get('unk_code') is not None:
            a = P['unk_code']    # the decoder uses the code as a dictionary key: enumerated in the multi-capability shapes
        assume(0 <= a < 256 and a not in (1, 2, 5, 64, 65, 69, 70, 71, 128, 131))
        return a, bytes([b % 256]) if P.get('unk_len', 1) else b'', ('unknown', None, 'unknown')
    raise AssertionError(name)


AFI_SAFI_NAMES = {(1, 1): 'ipv4', (1, 2): 'ipv4_mcast', (2, 1): 'ipv6', (1, 4): 'ipv4_lu', (2, 4): 'ipv6_lu',
                  (1, 133): 'flowspec', (1, 128): 'vpnv4', (2, 128): 'vpnv6', (25, 70): 'evpn', (16388, 71): 'bgpls',
                  (1, 73): 'ipv4_srte', (2, 133): 'ipv6_flowspec'}


def ob_open_indep(asn: int, hold: int, a: int, b: int, c: int) -> bool:
    """independent encoder -> real Open.parse"""
    from yabgp.message.open import Open
    assume(1 <= asn < 2 ** 32 and 0 <= hold < 65536)
    names = P['caps']
    packaging = P['packaging']       # 'each' | 'one' | 'mixed'
    has_as4 = 'as4' in names
    if not has_as4:
        assume(asn < 65536)
    as2 = asn if not has_as4 else (P.get('as2', 23456))
    encoded, expect = [], {}
    for nm in names:
        code, val, (key, ev, kind) = enc_cap(nm, a, b, c)
        if nm == 'as4':
            val = struct.pack('!I', asn)
        encoded.append(struct.pack('!BB', code, len(val)) + val)
        if kind == 'set':
            expect[key] = ev
        elif kind == 'append':
            expect.setdefault(key, []).append(ev)
        elif kind == 'extend':
            expect.setdefault(key, []).extend(ev)
        elif kind == 'dups':
            expect[key] = None        # once or twice, both readings are fine: it has to terminate and keep the rest
        else:
            expect[str(code)] = None     # value text not compared (repr of bytes)
    if packaging == 'each':
        params = b''.join(struct.pack('!BB', 2, len(e)) + e for e in encoded)
    elif packaging == 'one':
        allc = b''.join(encoded)
        params = struct.pack('!BB', 2, len(allc)) + allc if encoded else b''
    else:
        first = encoded[0] if encoded else b''
        rest = b''.join(encoded[1:])
        params = (struct.pack('!BB', 2, len(first)) + first if encoded else b'') + \
                 (struct.pack('!BB', 2, len(rest)) + rest if len(encoded) > 1 else b'')
    body = struct.pack('!BHHIB', 4, as2, hold, 0x0A000002, len(params)) + params
    out = Open().parse(body)
    cover('parsed')
    if not isinstance(out, dict):
        return False
    if not (out['version'] == 4 and out['asn'] == asn and out['hold_time'] == hold and out['bgp_id'] == '10.0.0.2'):
        return False
    got = out['capabilities']
    if set(got.keys()) != set(expect.keys()):
        return False
    for k, v in expect.items():
        if v is not None and not same(got[k], v):
            return False
    return True


def obligations(tier, seed):
    quick = tier == 'quick'
    out = []
    base = {'afi_safi': [(1, 1)]}
    flags = ['cisco_route_refresh', 'route_refresh', 'four_bytes_as', 'enhanced_route_refresh']
    subsets = []
    for r in range(0, len(flags) + 1):
        for comb in itertools.combinations(flags, r):
            subsets.append(comb)
    capsets = []
    for comb in subsets:
        d = dict(base)
        for f in comb:
            d[f] = True
        capsets.append(('+'.join(comb) or 'mp-only', d))
    for comb in subsets:
        # the configuration stores every known capability with a boolean: the switched-off ones as False / None
        d = dict(base, cisco_route_refresh=False, route_refresh=False, four_bytes_as=False, enhanced_route_refresh=False,
                 graceful_restart=False, cisco_multi_session=False, add_path=None)
        for f in comb:
            d[f] = True
        capsets.append((('+'.join(comb) or 'mp-only') + '/explicit-false', d))
    capsets.append(('none', {}))
    capsets.append(('addpath-both', dict(base, add_path='ipv4_both')))
    capsets.append(('addpath-send', dict(base, add_path='ipv4_send', four_bytes_as=True)))
    capsets.append(('addpath-receive', dict(base, add_path='ipv4_receive')))
    capsets.append(('extnh', dict(base, ext_nexthop=[{'afi_safi': [1, 128], 'nexthop_afi': 2}, {'afi_safi': [1, 1], 'nexthop_afi': 2}])))
    capsets.append(('two-families', {'afi_safi': [(1, 1), (1, 128)], 'route_refresh': True}))
    capsets.append(('flags-without-mp', {'route_refresh': True, 'four_bytes_as': True}))
    for name, d in capsets:
        for cls in ('small', 'big'):
            if quick and cls == 'big' and name not in ('none', 'mp-only', 'route_refresh', 'four_bytes_as', 'addpath-both', 'mp-only/explicit-false', 'extnh', 'two-families'):
                continue
            out.append(ob('C14/open-rt/%s/as=%s' % (name, cls), 'ob_open_rt', {'caps': d, 'as_class': cls}, covers=['parsed']))
    for n in range(0, 5):
        out.append(ob('C14/notification-rt/n=%d' % n, 'ob_notification_rt', {'n': n}, covers=['parsed']))
    out.append(ob('C14/keepalive-rt', 'ob_keepalive_rt', {}, covers=['parsed']))
    for t in (5, 128):
        out.append(ob('C14/route-refresh-rt/type=%d' % t, 'ob_rr_rt', {'type': t}, covers=['parsed']))
    # independent encoder
    singles = ['mp', 'mp-sym', 'rr', 'rr-old', 'err', 'gr', 'multisession', 'as4', 'addpath', 'extnh', 'llgr', 'unknown']
    for pk in ('each', 'one'):
        out.append(ob('C14/indep/none/%s' % pk, 'ob_open_indep', {'caps': [], 'packaging': pk}, covers=['parsed']))
        for nm in singles:
            out.append(ob('C14/indep/%s/%s' % (nm, pk), 'ob_open_indep', {'caps': [nm], 'packaging': pk}, covers=['parsed']))
    for fam in sorted(AFI_SAFI_NAMES):
        out.append(ob('C14/indep/addpath/afi=%d/safi=%d' % fam, 'ob_open_indep',
                      {'caps': ['mp', 'addpath'], 'packaging': 'one', 'ap': fam, 'mp': fam}, covers=['parsed']))
    out.append(ob('C14/indep/unknown/empty-value', 'ob_open_indep', {'caps': ['unknown'], 'packaging': 'each', 'unk_len': 0},
                  covers=['parsed']))
    out.append(ob('C14/indep/as4/as2-not-as-trans', 'ob_open_indep', {'caps': ['as4'], 'packaging': 'each', 'as2': 65002},
                  covers=['parsed']))
    trios = [['mp', 'rr', 'as4'], ['as4', 'addpath', 'err'], ['rr-old', 'gr', 'llgr'], ['mp', 'extnh', 'unknown']]
    if not quick:
        trios += [['mp-sym', 'rr', 'rr-old'], ['as4', 'gr', 'multisession'], ['mp', 'as4', 'llgr'], ['err', 'unknown', 'as4']]
    for trio in trios:
        perms = list(itertools.permutations(trio))
        if quick:
            perms = [perms[0], perms[3], perms[5]]
        for pm in perms:
            for pk in (('each', 'one', 'mixed') if not quick else ('mixed', 'one')):
                out.append(ob('C14/indep/%s/%s' % ('-'.join(pm), pk), 'ob_open_indep', {'caps': list(pm), 'packaging': pk, 'unk_code': 99},
                              covers=['parsed']))
    # several ADD-PATH capabilities in one OPEN (one per address family), and one capability with several tuples
    for pk in ('each', 'one', 'mixed'):
        out.append(ob('C14/indep/addpath+addpath2/%s' % pk, 'ob_open_indep', {'caps': ['addpath', 'addpath2'], 'packaging': pk},
                      covers=['parsed']))
        out.append(ob('C14/indep/addpath2+mp+addpath/%s' % pk, 'ob_open_indep',
                      {'caps': ['addpath2', 'mp', 'addpath'], 'packaging': pk, 'ap2': (1, 4)}, covers=['parsed']))
    for pk in ('each', 'one'):
        out.append(ob('C14/indep/addpath-same-tuple-twice/%s' % pk, 'ob_open_indep',
                      {'caps': ['mp', 'addpath-same-tuple-twice', 'rr'], 'packaging': pk}, covers=['parsed']))
    out.append(ob('C14/indep/addpath-two-tuples/each', 'ob_open_indep', {'caps': ['addpath-two-tuples'], 'packaging': 'each'},
                  covers=['parsed']))
    out.append(ob('C14/indep/four/mp-rr-as4-addpath/mixed', 'ob_open_indep',
                  {'caps': ['mp', 'rr', 'as4', 'addpath'], 'packaging': 'mixed'}, covers=['parsed']))
    return out
