"""./check selftest - validation of the machinery itself (not part of any property's verdict):
 (a) every complete BGP message captured in the repository's unit tests is accepted by the independent walker;
 (b) the engine-extension lemmas are discharged for a representative constant set;
 (c) the reference OPEN reader reads back the OPENs in the test vectors."""
import ast
import glob
import os
import sys


def main():
    from vf import loader
    from vf.ref import walker
    from vf.engine import lemmas
    n = ok = 0
    for f in glob.glob(os.path.join(loader.REPO, 'yabgp/tests/unit/message/*.py')):
        tree = ast.parse(open(f).read())
        for node in ast.walk(tree):
            if isinstance(node, ast.Constant) and isinstance(node.value, bytes) and node.value[:16] == b'\xff' * 16:
                n += 1
                if walker.check_message(node.value, False) or walker.check_message(node.value, True):
                    ok += 1
                else:
                    print('walker rejects a captured message in', f)
    print('walker: %d/%d captured messages accepted' % (ok, n))
    lem = lemmas.discharge({'and': {1, 0x10, 0x80, 0xF0, 8160, 0xFFFFF000}, 'or': {1, 16}, 'xor': {255}, 'div': {2, 4, 8, 3}})
    print('lemmas:', lem['ok'], lem['discharged'], 'discharged', lem['failed'], '%.1fs' % lem['solver_s'])
    return 0 if (ok == n and n > 0 and lem['ok']) else 1


if __name__ == '__main__':
    sys.exit(main())
