#!/bin/sh
# Builds the tooling overlay for the checks, offline, from files on disk only:
#   /verif/.venv = venv on top of /venv (the repository's interpreter and deps)
#   + crosshair-tool / z3-solver from /opt/veriftools/wheels.
set -e
cd "$(dirname "$0")"
V=.venv
if [ ! -x "$V/bin/python" ] || ! "$V/bin/python" -c "import crosshair, z3, netaddr, flask" 2>/dev/null; then
    rm -rf "$V"
    /venv/bin/python -m venv "$V"
    SP=$("$V/bin/python" -c "import sysconfig; print(sysconfig.get_paths()['purelib'])")
    echo "import site; site.addsitedir('/venv/lib/python3.12/site-packages')" > "$SP/_overlay.pth"
    PIP_NO_INDEX=1 "$V/bin/pip" install -q --no-index --find-links /opt/veriftools/wheels crosshair-tool z3-solver
fi
"$V/bin/python" -c "import crosshair, z3, netaddr, flask, oslo_config; print('setup ok: crosshair', crosshair.__version__, 'z3', z3.get_version_string())"
